package props

import (
	"fmt"
	"go/ast"
	"go/constant"
	"go/token"
	"go/types"
	"sort"
	"strings"

	"daecheck/internal/core"
	"daecheck/internal/fdt"

	"golang.org/x/tools/go/cfg"
)

func init() {
	register(&Checker{ID: "C01", Run: runC01, Explain: "Structural necessary conditions of first-match routing semantics, decided on the type-checked control-plane matcher and rule lowering: " +
		"(1) SCAN: the decision table of RoutingMatcher.Match's loop body, extracted by exhaustive constant propagation over its CFG for every abstract input (state good/bad/must × not × must flag × sentinel kind), equals the reference table written from the property; " +
		"(2) SENTINEL: OR/AND carry the logical mask, MUST_RULES/control-plane/user ids do not, ids fit below the sentinels; " +
		"(3) LOWER: RulesBuilder.Apply names the per-key-group outbound OR / AND / the rule's outbound by (last key group, last condition), every multi-value emitter names OR for all but the last value and the callback's outbound for the last, every condition lowers to at least one match set; " +
		"(4) DUAL: at every appendRule site the kernel match-set literal and the userspace compiled match agree on type, negation, outbound, mark, must and value source, and compileRoutingMatch decodes each type the way its emitter encodes it; " +
		"(5) EXH: the ten routing functions are registered, every emitted match type has a case in Match and compileRoutingMatch, both defaults are errors; (6) FACETS: negated MAC adds the zero MAC, domain bit index = match-set index, process name needs a non-empty name; (7) fallback is emitted after the rules and required last. " +
		"(8) PARSENUM: numeric rule values (ports, DSCP, marks) are parsed with base 0/10 and a bit size no wider than their destination type. " +
		"Not decided: per-type predicates on concrete values (CIDR containment, port parsing), the domain matcher (C11), end-to-end decisions for concrete packets."})
}

func constInt(c *Ctx, rule, rel, name string) (int64, bool) {
	pk := c.P.Pkg(rel)
	if pk == nil {
		c.R.Unresolved(rule, rel+"."+name)
		return 0, false
	}
	o, ok := pk.Types.Scope().Lookup(name).(*types.Const)
	if !ok {
		c.R.Unresolved(rule, rel+"."+name)
		return 0, false
	}
	v, ok := constant.Int64Val(constant.ToInt(o.Val()))
	return v, ok
}

func runC01(c *Ctx) {
	or, ok1 := constInt(c, "SENTINEL", "common/consts", "OutboundLogicalOr")
	and, ok2 := constInt(c, "SENTINEL", "common/consts", "OutboundLogicalAnd")
	mask, ok3 := constInt(c, "SENTINEL", "common/consts", "OutboundLogicalMask")
	mr, ok4 := constInt(c, "SENTINEL", "common/consts", "OutboundMustRules")
	cpr, ok5 := constInt(c, "SENTINEL", "common/consts", "OutboundControlPlaneRouting")
	umax, ok6 := constInt(c, "SENTINEL", "common/consts", "OutboundUserDefinedMax")
	umin, ok7 := constInt(c, "SENTINEL", "common/consts", "OutboundUserDefinedMin")
	if !(ok1 && ok2 && ok3 && ok4 && ok5 && ok6 && ok7) {
		return
	}
	// (2) sentinel algebra
	c.R.Checkf("SENTINEL", "or-and-carry-mask", "common/consts/ebpf_generated.go", or&mask == mask && and&mask == mask && or != and, "OR=%#x AND=%#x both carry LogicalMask=%#x and differ", or, and, mask)
	c.R.Checkf("SENTINEL", "tails-do-not-carry-mask", "common/consts/ebpf_generated.go", mr&mask != mask && cpr&mask != mask, "MUST_RULES=%#x and CONTROL_PLANE_ROUTING=%#x are rule tails (no logical mask)", mr, cpr)
	bad := int64(-1)
	for id := int64(0); id <= umax; id++ {
		if id&mask == mask {
			bad = id
		}
	}
	c.R.Checkf("SENTINEL", "user-ids-are-tails", "common/consts/ebpf_generated.go", bad < 0 && umax < mr && umin == 2, "every outbound id 0..%d is a tail (id&mask != mask), user ids %d..%d lie below MUST_RULES", umax, umin, umax)
	// the group-count guard dominates the construction of the name->uint8 id table
	found := false
	for _, f := range c.P.FuncsIn("control") {
		g := (*core.Graph)(nil)
		mk := func(n ast.Node) bool {
			as, ok := n.(*ast.AssignStmt)
			if !ok || len(as.Lhs) != 1 || len(as.Rhs) != 1 {
				return false
			}
			t := f.Info().TypeOf(as.Lhs[0])
			return t != nil && t.String() == "map[string]uint8" && strings.HasPrefix(core.ExprStr(as.Rhs[0]), "make(")
		}
		has := false
		ast.Inspect(f.Body, func(m ast.Node) bool {
			if _, isLit := m.(*ast.FuncLit); isLit {
				return false
			}
			if mk(m) {
				has = true
			}
			return true
		})
		if !has || !strings.Contains(strings.ToLower(f.Name), "controlplane") {
			continue
		}
		found = true
		c.R.Saw(f)
		g = f.Graph()
		ok := false
		for _, cs := range g.Conds(func(e ast.Expr) bool {
			s := core.ExprStr(e)
			return strings.Contains(s, "OutboundUserDefinedMax") && strings.Contains(s, "len(") && strings.Contains(s, ">")
		}) {
			good, _ := onlyErrorReturns(g, core.Point{B: cs.True, I: 0}, nil)
			cn := ast.Node(cs.Cond)
			_, _, reach := g.ReachesAvoiding(g.Entry(), func(n ast.Node) bool { return n == cn }, mk)
			if good && !reach {
				ok = true
			}
		}
		c.R.Checkf("SENTINEL", "group-count-bounded", c.pos(f.Pos()), ok, "%s rejects more groups than OutboundUserDefinedMax with an error before it assigns uint8 group ids (so ids never collide with the sentinels)", f.Name)
	}
	if !found {
		c.R.Unresolved("SENTINEL", "control: construction of the outbound name -> uint8 id table")
	}

	// (1) scan automaton
	cells := checkScan(c, "SCAN", scanSpec{Rel: "control", Fn: "RoutingMatcher.Match", RangeOver: "matches", NotField: "match.not", OutField: "match.outbound", MustField: "match.must",
		Or: or, And: and, Mask: mask, MustRules: mr, UserKinds: []int64{0, 1, 2, cpr}, HasMustVar: true})
	c.R.Floor("SCAN/cells", cells, 224)

	c01Lower(c)
	c01Dual(c)
	c01Exh(c)
	c01Facets(c)
	domainPatternsIndependent(c, "LOWER")
	c01PnameWidth(c)
	c12PrefixLen(c) // CIDR containment with IPv4 as IPv4-mapped: key length rule shared with C12
	c.R.Floor("PARSENUM", parseNumSites(c, "PARSENUM", []string{"component/routing"}, func(f string) bool { return f == "function_parser.go" || f == "matcher_builder.go" }), 2)
	scanIsStateless(c, "SCAN", "control", "RoutingMatcher.Match", []string{"goodSubrule", "badRule", "must"})
	// the program that is lowered is the optimizer pipeline's output: the merge guard (same outbound incl. mark/must) is an obligation here too
	c04Merge(c)
}

// ---- (3) lowering -------------------------------------------------------------

func c01Lower(c *Ctx) {
	const rule = "LOWER"
	f := c.fn(rule, "component/routing", "RulesBuilder.Apply")
	if f == nil {
		return
	}
	info := f.Info()
	g := f.Graph()
	// innermost range (over the key groups): the one whose body calls the function parser
	var inner *ast.RangeStmt
	var call *ast.CallExpr
	ast.Inspect(f.Body, func(m ast.Node) bool {
		rs, ok := m.(*ast.RangeStmt)
		if !ok {
			return true
		}
		hasNested := false
		ast.Inspect(rs.Body, func(k ast.Node) bool {
			if _, isR := k.(*ast.RangeStmt); isR {
				hasNested = true
			}
			return true
		})
		if hasNested {
			return true
		}
		ast.Inspect(rs.Body, func(k ast.Node) bool {
			if ce, isC := k.(*ast.CallExpr); isC {
				if id, isI := ce.Fun.(*ast.Ident); isI {
					if v, isV := info.ObjectOf(id).(*types.Var); isV && strings.Contains(v.Type().String(), "FunctionParser") {
						inner, call = rs, ce
					}
				}
			}
			return true
		})
		return true
	})
	if inner == nil || call == nil || len(call.Args) < 5 {
		c.R.Unresolved(rule, "Apply: inner key-group loop calling the function parser")
		return
	}
	outArg, _ := ast.Unparen(call.Args[4]).(*ast.Ident)
	if outArg == nil {
		c.R.Checkf(rule, "apply-outbound-arg", c.pos(call.Pos()), false, "the parser's outbound argument is not a plain variable")
		return
	}
	outObj := info.ObjectOf(outArg)
	var body *cfg.Block
	heads := map[*cfg.Block]bool{}
	for _, b := range g.CFG.Blocks {
		if b.Stmt == ast.Stmt(inner) {
			switch b.Kind {
			case cfg.KindRangeBody:
				body = b
			case cfg.KindRangeLoop:
				heads[b] = true
			}
		}
	}
	// the two "is last" predicates are the equality tests of the two loop indices
	jKey, iKey := core.ExprStr(inner.Key), ""
	var outerFn *ast.RangeStmt
	ast.Inspect(f.Body, func(m ast.Node) bool {
		if rs, ok := m.(*ast.RangeStmt); ok && rs != inner && rs.Body.Pos() < inner.Pos() && inner.End() <= rs.Body.End() {
			outerFn = rs // the innermost enclosing one is visited last
		}
		return true
	})
	if outerFn != nil && outerFn.Key != nil {
		iKey = core.ExprStr(outerFn.Key)
	}
	var lastJ, lastI string
	ast.Inspect(inner.Body, func(m ast.Node) bool {
		if be, ok := m.(*ast.BinaryExpr); ok && be.Op == token.EQL {
			if core.ExprStr(be.X) == jKey {
				lastJ = core.ExprStr(be)
			}
			if iKey != "" && core.ExprStr(be.X) == iKey {
				lastI = core.ExprStr(be)
			}
		}
		return true
	})
	okPreds := lastJ == jKey+" == len("+core.ExprStr(inner.X)+") - 1" && outerFn != nil && lastI == iKey+" == len("+core.ExprStr(outerFn.X)+") - 1"
	c.R.Checkf(rule, "apply-last-predicates", c.pos(inner.Pos()), okPreds, "key-group loop tests %q and %q (last key group of the condition, last condition of the rule)", lastJ, lastI)
	if !okPreds || body == nil {
		return
	}
	want := map[string]string{"false,false": "OR", "false,true": "OR", "true,false": "AND", "true,true": "RULE"}
	rows := 0
	for _, lj := range []bool{false, true} {
		for _, li := range []bool{false, true} {
			name := "unset"
			job := &fdt.Job{F: f, Start: core.Point{B: body, I: 0}, StopAt: heads,
				Inputs: map[string]constant.Value{lastJ: constant.MakeBool(lj), lastI: constant.MakeBool(li)},
				Event: func(n ast.Node, ev func(ast.Expr) string) string {
					classify := func(e ast.Expr) string {
						s := core.ExprStr(e)
						switch {
						case strings.Contains(s, "OutboundLogicalOr"):
							return "OR"
						case strings.Contains(s, "OutboundLogicalAnd"):
							return "AND"
						case s == "outbound.Name":
							return "RULE"
						}
						return "?" + s
					}
					switch st := n.(type) {
					case *ast.AssignStmt:
						for k, l := range st.Lhs {
							if id, ok := l.(*ast.Ident); ok && info.ObjectOf(id) == outObj && k < len(st.Rhs) {
								// overrideOutbound := &Outbound{Name: …}
								if u, ok := st.Rhs[k].(*ast.UnaryExpr); ok {
									if cl, ok := u.X.(*ast.CompositeLit); ok {
										for _, el := range cl.Elts {
											if kv, ok := el.(*ast.KeyValueExpr); ok && core.ExprStr(kv.Key) == "Name" {
												return "Name=" + classify(kv.Value)
											}
										}
									}
								}
								return "Name=?"
							}
							if se, ok := l.(*ast.SelectorExpr); ok && se.Sel.Name == "Name" && core.RootObj(info, se.X) == outObj && k < len(st.Rhs) {
								return "Name=" + classify(st.Rhs[k])
							}
						}
					}
					found := ""
					ast.Inspect(n, func(m ast.Node) bool {
						if m == ast.Node(call) {
							found = "CALL"
						}
						return true
					})
					return found
				}}
			outs := job.Run()
			finals := map[string]bool{}
			for _, o := range outs {
				cur := "unset"
				for _, e := range o.Events {
					if strings.HasPrefix(e, "Name=") {
						cur = strings.TrimPrefix(e, "Name=")
					}
					if e == "CALL" {
						finals[cur] = true
					}
				}
			}
			var fl []string
			for k := range finals {
				fl = append(fl, k)
			}
			sort.Strings(fl)
			name = strings.Join(fl, "|")
			key := fmt.Sprintf("%v,%v", lj, li)
			rows++
			c.R.Checkf(rule, "apply-outbound-name@"+key, c.pos(call.Pos()), name == want[key],
				"for (last key group=%v, last condition=%v) the match set's outbound is named %s (property: %s — alternatives inside a condition are OR-joined, conditions AND-joined, the last set carries the rule's outbound)", lj, li, name, want[key])
		}
	}
	c.R.Floor(rule+"/apply-rows", rows, 4)
	// mark and must travel with every lowered set
	okMM := false
	ast.Inspect(inner.Body, func(m ast.Node) bool {
		if cl, ok := m.(*ast.CompositeLit); ok {
			s := core.ExprStr(cl)
			_ = s
			mm := 0
			for _, el := range cl.Elts {
				if kv, ok := el.(*ast.KeyValueExpr); ok {
					if core.ExprStr(kv.Key) == "Mark" && core.ExprStr(kv.Value) == "outbound.Mark" {
						mm++
					}
					if core.ExprStr(kv.Key) == "Must" && core.ExprStr(kv.Value) == "outbound.Must" {
						mm++
					}
				}
			}
			if mm == 2 {
				okMM = true
			}
		}
		return true
	})
	c.R.Checkf(rule, "apply-mark-must-propagated", c.pos(inner.Pos()), okMM, "every lowered match set carries the rule's mark and must")

	// every condition lowers to at least one match set: an empty key list must be an error
	emptyErr := false
	for _, cs := range g.Conds(func(e ast.Expr) bool {
		s := core.ExprStr(e)
		return (strings.Contains(s, "len("+core.ExprStr(inner.X)+")") || strings.Contains(s, "len(f.Params)")) && strings.Contains(s, "== 0")
	}) {
		if good, _ := onlyErrorReturns(g, core.Point{B: cs.True, I: 0}, nil); good {
			emptyErr = true
		}
	}
	c.R.Checkf(rule, "every-condition-lowers@Apply", c.pos(inner.Pos()), emptyErr,
		"a condition whose value list is empty (possible after geodata expansion with an @attr filter or an empty geoip list) must be rejected: the key-group loop over %s then runs zero times and the condition's AND/tail sentinel is never emitted, so the rule loses its outbound and fuses with the next rule", core.ExprStr(inner.X))

	// multi-value emitters
	n := 0
	for _, e := range emitters(c) {
		n += checkEmitterNaming(c, rule, e, "control.RoutingMatcherBuilder.", "outboundToId", "outbound.Name")
	}
	c.R.Floor(rule+"/emitters", n, 10)
}

// emitters: methods of RoutingMatcherBuilder registered as function parsers.
func emitters(c *Ctx) []*core.Func {
	reg := c.fn("EXH", "control", "RoutingMatcherBuilder.registerProgramParsers")
	if reg == nil {
		return nil
	}
	var out []*core.Func
	seen := map[string]bool{}
	ast.Inspect(reg.Body, func(m ast.Node) bool {
		se, ok := m.(*ast.SelectorExpr)
		if !ok {
			return true
		}
		if fn, ok := reg.Info().Uses[se.Sel].(*types.Func); ok && recvName(fn) == "RoutingMatcherBuilder" && strings.HasPrefix(fn.Name(), "add") && !seen[fn.Name()] {
			seen[fn.Name()] = true
			if f := c.fn("EXH", "control", "RoutingMatcherBuilder."+fn.Name()); f != nil {
				out = append(out, f)
			}
		}
		return true
	})
	sort.Slice(out, func(i, j int) bool { return out[i].Name < out[j].Name })
	return out
}

// ---- (4) dual representation -------------------------------------------------

func stripConv(s string) string {
	for {
		changed := false
		for _, p := range []string{"uint8(", "uint32(", "byte(", "bpfBool(", "int(", "uint16("} {
			if strings.HasPrefix(s, p) && strings.HasSuffix(s, ")") {
				s = s[len(p) : len(s)-1]
				changed = true
			}
		}
		if !changed {
			return s
		}
	}
}

type repFacts struct {
	typ, not, outbound, mark, must, val string
}

func c01Dual(c *Ctx) {
	const rule = "DUAL"
	sites := 0
	encKind := map[string]string{} // match type -> value kind (from emitters)
	fs := emitters(c)
	if fb := c.fn(rule, "control", "RoutingMatcherBuilder.addFallback"); fb != nil {
		fs = append(fs, fb)
	}
	for _, e := range fs {
		info := e.Info()
		short := strings.TrimPrefix(e.Name, "control.RoutingMatcherBuilder.")
		ast.Inspect(e.Body, func(m ast.Node) bool {
			call, ok := m.(*ast.CallExpr)
			if !ok {
				return true
			}
			cal := core.Callee(info, call)
			if cal == nil || cal.Name() != "appendRule" || len(call.Args) != 2 {
				return true
			}
			sites++
			var k, u repFacts
			k.not, u.not = "false", "false"
			// kernel literal: the bpfMatchSet composite literal assigned to the first argument's variable
			setVar, _ := call.Args[0].(*ast.Ident)
			var compiledVar *ast.Ident
			var baseCall *ast.CallExpr
			switch a := call.Args[1].(type) {
			case *ast.Ident:
				compiledVar = a
			case *ast.CallExpr:
				baseCall = a
			}
			ast.Inspect(e.Body, func(x ast.Node) bool {
				as, ok := x.(*ast.AssignStmt)
				if ok && len(as.Lhs) == 1 && len(as.Rhs) == 1 {
					lhs := core.ExprStr(as.Lhs[0])
					if setVar != nil && lhs == setVar.Name {
						if cl, ok := as.Rhs[0].(*ast.CompositeLit); ok {
							for _, el := range cl.Elts {
								kv, ok := el.(*ast.KeyValueExpr)
								if !ok {
									continue
								}
								v := stripConv(core.ExprStr(kv.Value))
								switch core.ExprStr(kv.Key) {
								case "Type":
									k.typ = v
								case "Not":
									k.not = v
								case "Outbound":
									k.outbound = v
								case "Mark":
									k.mark = v
								case "Must":
									k.must = v
								case "Value":
									k.val = valueKind(kv.Value)
								}
							}
						}
					}
					if setVar != nil && lhs == setVar.Name+".Value[0]" {
						k.val = "byte0:" + stripConv(core.ExprStr(as.Rhs[0]))
					}
					if compiledVar != nil && lhs == compiledVar.Name {
						if bc, ok := as.Rhs[0].(*ast.CallExpr); ok {
							baseCall = bc
						}
					}
					if compiledVar != nil && strings.HasPrefix(lhs, compiledVar.Name+".") {
						fld := strings.TrimPrefix(lhs, compiledVar.Name+".")
						v := stripConv(core.ExprStr(as.Rhs[0]))
						switch fld {
						case "lpmIndex":
							u.val = "u32le:" + v
						case "portStart":
							u.val = "port:" + v + u.val
						case "portEnd":
							u.val = u.val + "," + v
						case "mask", "dscp":
							u.val = "byte0:" + v
						case "pname":
							u.val = "bytes:" + v
						}
					}
				}
				if ce, ok := x.(*ast.CallExpr); ok && setVar != nil {
					s := core.ExprStr(ce.Fun)
					if s == "binary.LittleEndian.PutUint32" && len(ce.Args) == 2 && core.ExprStr(ce.Args[0]) == setVar.Name+".Value[:]" {
						k.val = "u32le:" + stripConv(core.ExprStr(ce.Args[1]))
					}
					if s == "copy" && len(ce.Args) == 2 && core.ExprStr(ce.Args[0]) == setVar.Name+".Value[:]" {
						k.val = "bytes:" + strings.TrimSuffix(core.ExprStr(ce.Args[1]), "[:]")
					}
				}
				return true
			})
			if baseCall != nil && len(baseCall.Args) == 5 {
				u.typ = core.ExprStr(baseCall.Args[0])
				u.not = core.ExprStr(baseCall.Args[1])
				u.outbound = core.ExprStr(baseCall.Args[2])
				u.mark = core.ExprStr(baseCall.Args[3])
				u.must = core.ExprStr(baseCall.Args[4])
			}
			if k.val == "" {
				k.val = "none"
			}
			if u.val == "" {
				u.val = "none"
			}
			same := k == u && k.typ != ""
			c.R.Checkf(rule, "kernel-vs-userspace@"+short, c.pos(call.Pos()), same,
				"appendRule in %s: kernel match set {type=%s not=%s outbound=%s mark=%s must=%s value=%s} vs userspace compiled match {type=%s not=%s outbound=%s mark=%s must=%s value=%s}", short,
				k.typ, k.not, k.outbound, k.mark, k.must, k.val, u.typ, u.not, u.outbound, u.mark, u.must, u.val)
			if k.typ != "" {
				encKind[strings.TrimPrefix(k.typ, "consts.")] = strings.SplitN(k.val, ":", 2)[0]
			}
			return true
		})
	}
	c.R.Floor(rule+"/appendRule-sites", sites, 11)
	// decode side
	if f := c.fn(rule, "control", "compileRoutingMatch"); f != nil {
		dec := map[string]string{}
		ast.Inspect(f.Body, func(m ast.Node) bool {
			cc, ok := m.(*ast.CaseClause)
			if !ok || cc.List == nil {
				return true
			}
			kind := "none"
			for _, st := range cc.Body {
				s := core.ExprStr2(st)
				// structural form of the 4-byte little-endian read: binary.LittleEndian.Uint32(match.Value[:N]) with constant N == 4
				ast.Inspect(st, func(k ast.Node) bool {
					call, ok := k.(*ast.CallExpr)
					if !ok || len(call.Args) != 1 || nospace(core.ExprStr(call.Fun)) != "binary.LittleEndian.Uint32" {
						return true
					}
					se, ok := ast.Unparen(call.Args[0]).(*ast.SliceExpr)
					if !ok || se.High == nil || !strings.HasSuffix(core.ExprStr(se.X), ".Value") {
						return true
					}
					lowZero := se.Low == nil
					if se.Low != nil {
						if tv, has := f.Info().Types[se.Low]; has && tv.Value != nil && tv.Value.String() == "0" {
							lowZero = true
						}
					}
					if tv, has := f.Info().Types[se.High]; has && tv.Value != nil && tv.Value.String() == "4" && lowZero {
						kind = "u32le"
					}
					return true
				})
				switch {
				case strings.Contains(s, "binary.LittleEndian.Uint32(match.Value[:4])"):
					kind = "u32le"
				case strings.Contains(s, "ParsePortRange(match.Value[:])"):
					kind = "port"
				case strings.Contains(s, "= match.Value[0]"):
					kind = "byte0"
				case strings.HasSuffix(s, "= match.Value"):
					kind = "bytes"
				}
			}
			for _, e := range cc.List {
				dec[strings.TrimPrefix(core.ExprStr(e), "consts.")] = kind
			}
			return true
		})
		var ks []string
		for k := range encKind {
			ks = append(ks, k)
		}
		sort.Strings(ks)
		for _, k := range ks {
			c.R.Checkf(rule, "decode-matches-encode@"+k, c.pos(f.Pos()), dec[k] == encKind[k], "%s: emitter writes the value as %q, compileRoutingMatch reads it as %q", k, encKind[k], dec[k])
		}
		// base fields decoded from the same bytes
		base := core.ExprStr2(f.Body.List[0])
		_ = base
		okBase := false
		ast.Inspect(f.Body, func(m ast.Node) bool {
			if cl, ok := m.(*ast.CompositeLit); ok {
				want := map[string]string{"matchType": "consts.MatchType(match.Type)", "outbound": "consts.OutboundIndex(match.Outbound)", "not": "match.Not != 0", "mark": "match.Mark", "must": "match.Must != 0"}
				n := 0
				for _, el := range cl.Elts {
					if kv, ok := el.(*ast.KeyValueExpr); ok && want[core.ExprStr(kv.Key)] == core.ExprStr(kv.Value) {
						n++
					}
				}
				if n == 5 {
					okBase = true
				}
			}
			return true
		})
		c.R.Checkf(rule, "decode-base-fields", c.pos(f.Pos()), okBase, "compileRoutingMatch takes type, outbound, not, mark, must from the same-named match-set fields")
	}
}

func valueKind(e ast.Expr) string {
	s := core.ExprStr(e)
	switch {
	case strings.HasSuffix(s, ".Encode()") && strings.Contains(s, "bpfPortRange"):
		var a, b string
		ast.Inspect(e, func(m ast.Node) bool {
			if kv, ok := m.(*ast.KeyValueExpr); ok {
				switch core.ExprStr(kv.Key) {
				case "PortStart":
					a = core.ExprStr(kv.Value)
				case "PortEnd":
					b = core.ExprStr(kv.Value)
				}
			}
			return true
		})
		return "port:" + a + "," + b
	case s == "[16]byte{}":
		return ""
	}
	if cl, ok := e.(*ast.CompositeLit); ok && len(cl.Elts) == 1 {
		return "byte0:" + stripConv(core.ExprStr(cl.Elts[0]))
	}
	return "?" + s
}

// ---- (5) exhaustiveness ------------------------------------------------------------

func c01Exh(c *Ctx) {
	const rule = "EXH"
	reg := c.fn(rule, "control", "RoutingMatcherBuilder.registerProgramParsers")
	if reg == nil {
		return
	}
	// documented routing functions
	want := []string{"Function_Domain", "Function_Ip", "Function_SourceIp", "Function_Port", "Function_SourcePort", "Function_L4Proto", "Function_IpVersion", "Function_Mac", "Function_ProcessName", "Function_Dscp"}
	got := map[string]bool{}
	core.EachCall(reg.Body, core.Shallow, func(call *ast.CallExpr) {
		if cal := core.Callee(reg.Info(), call); cal != nil && cal.Name() == "RegisterFunctionParser" && len(call.Args) == 2 {
			got[strings.TrimPrefix(core.ExprStr(call.Args[0]), "consts.")] = true
		}
	})
	for _, w := range want {
		c.R.Checkf(rule, "registered@"+w, c.pos(reg.Pos()), got[w], "routing function %s has a registered lowering", w)
	}
	// emitted match types
	emitted := map[string]bool{}
	fs := emitters(c)
	if fb := c.fn(rule, "control", "RoutingMatcherBuilder.addFallback"); fb != nil {
		fs = append(fs, fb)
	}
	for _, e := range fs {
		ast.Inspect(e.Body, func(m ast.Node) bool {
			if se, ok := m.(*ast.SelectorExpr); ok && strings.HasPrefix(se.Sel.Name, "MatchType_") {
				emitted[se.Sel.Name] = true
			}
			return true
		})
	}
	for _, fn := range []string{"RoutingMatcher.Match", "compileRoutingMatch"} {
		f := c.fn(rule, "control", fn)
		if f == nil {
			continue
		}
		cases := map[string]bool{}
		defErr := false
		ast.Inspect(f.Body, func(m ast.Node) bool {
			sw, ok := m.(*ast.SwitchStmt)
			if !ok || sw.Tag == nil || !strings.HasSuffix(strings.ToLower(core.ExprStr(sw.Tag)), "matchtype") {
				return true
			}
			for _, cl := range sw.Body.List {
				cc := cl.(*ast.CaseClause)
				if cc.List == nil {
					for _, st := range cc.Body {
						if rs, ok := st.(*ast.ReturnStmt); ok && len(rs.Results) > 0 && core.ExprStr(rs.Results[len(rs.Results)-1]) != "nil" {
							defErr = true
						}
					}
				}
				for _, e := range cc.List {
					cases[strings.TrimPrefix(core.ExprStr(e), "consts.")] = true
				}
			}
			return true
		})
		var missing []string
		for k := range emitted {
			if !cases[k] {
				missing = append(missing, k)
			}
		}
		sort.Strings(missing)
		c.R.Checkf(rule, "match-types-handled@"+fn, c.pos(f.Pos()), len(missing) == 0 && defErr, "%s has a case for each of the %d emitted match types and an error default (missing: %v, error default: %v)", fn, len(emitted), missing, defErr)
	}
	c.R.Floor(rule+"/emitted-types", len(emitted), 11)
}

// ---- (6)/(7) facets --------------------------------------------------------------

func c01Facets(c *Ctx) {
	const rule = "FACET"
	if f := c.fn(rule, "control", "RoutingMatcherBuilder.addSourceMac"); f != nil {
		g := f.Graph()
		ok := false
		for _, cs := range g.Conds(func(e ast.Expr) bool { return core.ExprStr(e) == "f.Not" }) {
			for _, n := range cs.True.Nodes {
				if strings.Contains(core.ExprStr2(n), "append(macAddrs, [6]byte{})") {
					ok = true
				}
			}
		}
		c.R.Checkf(rule, "negated-mac-excludes-zero-mac", c.pos(f.Pos()), ok, "a negated mac() condition adds the all-zero MAC to its set, so it never matches a frame without a MAC")
	}
	if f := c.fn(rule, "control", "RoutingMatcherBuilder.addDomain"); f != nil {
		// RuleIndex: len(b.rules) evaluated before appendRule
		g := f.Graph()
		idx := func(n ast.Node) bool {
			return strings.Contains(core.ExprStr2(n), "RuleIndex: len(b.rules)") || strings.Contains(core.ExprStr2(n), "RuleIndex")
		}
		app := nodeCalls(f.Info(), "control.RoutingMatcherBuilder.appendRule")
		hasIdx := false
		ast.Inspect(f.Body, func(m ast.Node) bool {
			if kv, ok := m.(*ast.KeyValueExpr); ok && core.ExprStr(kv.Key) == "RuleIndex" && core.ExprStr(kv.Value) == "len(b.rules)" {
				hasIdx = true
			}
			return true
		})
		_, _, reach := g.ReachesAvoiding(g.Entry(), idx, app)
		c.R.Checkf(rule, "domain-bit-is-set-index@addDomain", c.pos(f.Pos()), hasIdx && !reach, "the domain set's bit index is len(b.rules) taken before the match set is appended (= the match set's own index)")
	}
	if f := c.fn(rule, "control", "RoutingMatcher.Match"); f != nil {
		okBit, okPname := false, false
		info := f.Info()
		var rngKey types.Object
		ast.Inspect(f.Body, func(m ast.Node) bool {
			if rs, ok := m.(*ast.RangeStmt); ok && strings.HasSuffix(core.ExprStr(rs.X), "matches") && rs.Key != nil {
				if id, ok := rs.Key.(*ast.Ident); ok {
					rngKey = info.ObjectOf(id)
				}
			}
			return true
		})
		onlyKey := func(e ast.Expr) bool {
			n, good := 0, true
			ast.Inspect(e, func(k ast.Node) bool {
				if id, ok := k.(*ast.Ident); ok {
					if _, isVar := info.ObjectOf(id).(*types.Var); isVar {
						n++
						if info.ObjectOf(id) != rngKey {
							good = false
						}
					}
				}
				return true
			})
			return good && n > 0
		}
		ast.Inspect(f.Body, func(m ast.Node) bool {
			cc, ok := m.(*ast.CaseClause)
			if !ok {
				return true
			}
			for _, e := range cc.List {
				s := core.ExprStr(e)
				if strings.HasSuffix(s, "MatchType_DomainSet") {
					idxOK, shiftOK := false, false
					for _, st := range cc.Body {
						ast.Inspect(st, func(k ast.Node) bool {
							switch x := k.(type) {
							case *ast.IndexExpr:
								ix := throughSingleDef(info, f.Body, x.Index)
								if core.ExprStr(x.X) == "domainMatchBitmap" && onlyKey(ix) && isBinLit(ix, token.QUO, "32") {
									idxOK = true
								}
							case *ast.BinaryExpr:
								sh := throughSingleDef(info, f.Body, x.Y)
								if x.Op == token.SHR && onlyKey(sh) && isBinLit(sh, token.REM, "32") {
									shiftOK = true
								}
							}
							return true
						})
					}
					okBit = idxOK && shiftOK && rngKey != nil
				}
				if strings.HasSuffix(s, "MatchType_ProcessName") {
					nz, eq := false, false
					for _, st := range cc.Body {
						is, ok := st.(*ast.IfStmt)
						if !ok {
							continue
						}
						for _, at := range core.Atoms(is.Cond, true) {
							be, ok := at.Cond.(*ast.BinaryExpr)
							if !ok || !at.Polarity {
								continue
							}
							if be.Op == token.NEQ && core.ExprStr(be.X) == "processName[0]" && core.ExprStr(be.Y) == "0" {
								nz = true
							}
							if be.Op == token.EQL && (core.ExprStr(be.X) == "processName" || core.ExprStr(be.Y) == "processName") {
								eq = true
							}
						}
					}
					okPname = nz && eq
				}
			}
			return true
		})
		c.R.Checkf(rule, "domain-bit-tested-at-loop-index@Match", c.pos(f.Pos()), okBit, "Match tests bit i (the match set's index) of the domain bitmap")
		c.R.Checkf(rule, "pname-needs-known-name@Match", c.pos(f.Pos()), okPname, "a process-name set matches only when a process name is known (first byte non-zero) and all 16 bytes are equal")
	}
	// fallback after rules; both builds refuse a program whose last entry is not the fallback
	if f := c.fn(rule, "component/routing", "NormalizedProgram.Lower"); f != nil {
		info := f.Info()
		g := f.Graph()
		isFb := func(n ast.Node) bool {
			found := false
			ownCalls(n, func(call *ast.CallExpr, _ bool) {
				if id, ok := call.Fun.(*ast.Ident); ok && id.Name == "addFallback" {
					found = true
				}
			})
			return found
		}
		_, _, reach := g.ReachesAvoiding(g.Entry(), nodeCalls(info, "component/routing.RulesBuilder.Apply"), isFb)
		c.R.Checkf(rule, "fallback-after-rules@Lower", c.pos(f.Pos()), !reach && len(g.Find(isFb)) == 1, "addFallback runs only after Apply lowered all rules")
	}
	for _, fn := range []string{"RoutingMatcherBuilder.BuildUserspace", "buildRoutingKernspace"} {
		if f := c.fn(rule, "control", fn); f != nil {
			g := f.Graph()
			ok := false
			for _, cs := range g.Conds(func(e ast.Expr) bool {
				s := core.ExprStr(e)
				return strings.Contains(s, "MatchType_Fallback") && strings.Contains(s, "!=")
			}) {
				if good, _ := onlyErrorReturns(g, core.Point{B: cs.True, I: 0}, nil); good {
					ok = true
				}
			}
			c.R.Checkf(rule, "fallback-must-be-last@"+fn, c.pos(f.Pos()), ok, "%s refuses a program whose last match set is not the fallback", fn)
		}
	}
	// must_ prefix rewrite
	if f := c.fn(rule, "config", "patchMustOutbound"); f != nil {
		// every assignment that strips the must_ prefix from an outbound name is followed, on all paths
		// to the next loop iteration / exit, by an append of the keyless "must" parameter to the same outbound
		info := f.Info()
		g := f.Graph()
		strips := g.Find(func(n ast.Node) bool {
			as, ok := n.(*ast.AssignStmt)
			if !ok || len(as.Lhs) != 1 || len(as.Rhs) != 1 || core.FieldOf(info, as.Lhs[0]) != "Function.Name" {
				return false
			}
			call, ok := as.Rhs[0].(*ast.CallExpr)
			if !ok {
				// name, ok := strings.CutPrefix(X, "must_") ... X.Name = name
				if id, isId := ast.Unparen(as.Rhs[0]).(*ast.Ident); isId {
					obj := info.ObjectOf(id)
					found := false
					ast.Inspect(f.Body, func(k ast.Node) bool {
						a3, ok := k.(*ast.AssignStmt)
						if !ok || len(a3.Lhs) != 2 || len(a3.Rhs) != 1 {
							return true
						}
						if l0, ok := a3.Lhs[0].(*ast.Ident); !ok || info.ObjectOf(l0) != obj {
							return true
						}
						if c3, ok := ast.Unparen(a3.Rhs[0]).(*ast.CallExpr); ok && len(c3.Args) == 2 {
							cal := core.Callee(info, c3)
							v, isC := constStr(info, c3.Args[1])
							if cal != nil && cal.Name() == "CutPrefix" && isC && v == "must_" {
								found = true
							}
						}
						return true
					})
					return found
				}
				return false
			}
			if len(call.Args) != 2 {
				return false
			}
			cal := core.Callee(info, call)
			v, isC := constStr(info, call.Args[1])
			return cal != nil && cal.Name() == "TrimPrefix" && isC && v == "must_"
		})
		okAll := len(strips) >= 2
		for _, p := range strips {
			as := p.Node().(*ast.AssignStmt)
			owner := strings.TrimSuffix(core.ExprStr(as.Lhs[0]), ".Name")
			addsMust := func(n ast.Node) bool {
				a2, ok := n.(*ast.AssignStmt)
				if !ok || len(a2.Lhs) != 1 || core.ExprStr(a2.Lhs[0]) != owner+".Params" {
					return false
				}
				has := false
				ast.Inspect(a2.Rhs[0], func(k ast.Node) bool {
					if cl, ok := k.(*ast.CompositeLit); ok {
						for _, el := range cl.Elts {
							if kv, ok := el.(*ast.KeyValueExpr); ok && core.ExprStr(kv.Key) == "Val" {
								if v, isC := constStr(info, kv.Value); isC && v == "must" {
									has = true
								}
							}
							if kv, ok := el.(*ast.KeyValueExpr); ok && core.ExprStr(kv.Key) == "Key" {
								has = false
							}
						}
					}
					return true
				})
				return has
			}
			// the very next statements: must be reached before leaving the block
			reached := false
			for i := p.I + 1; i < len(p.B.Nodes); i++ {
				if addsMust(p.B.Nodes[i]) {
					reached = true
				}
			}
			if !reached {
				okAll = false
			}
		}
		// must_rules itself is exempted before the rewrite
		exempt := false
		for _, cs := range g.Conds(func(e ast.Expr) bool {
			be, ok := e.(*ast.BinaryExpr)
			if !ok || be.Op != token.EQL {
				return false
			}
			v, isC := constStr(info, be.Y)
			return isC && v == "must_rules"
		}) {
			_ = cs
			exempt = true
		}
		c.R.Checkf(rule, "must-prefix-becomes-param", c.pos(f.Pos()), okAll && exempt, "each of the %d must_ prefix strips (rules, fallback) is followed by appending the keyless `must` parameter to the same outbound; must_rules is left alone", len(strips))
	}
}

func isBinLit(e ast.Expr, op token.Token, lit string) bool {
	be, ok := ast.Unparen(e).(*ast.BinaryExpr)
	if !ok || be.Op != op {
		return false
	}
	bl, ok := be.Y.(*ast.BasicLit)
	return ok && bl.Value == lit
}

// checkEmitterNaming decides the OR/last naming discipline of one emitter:
// a loop over `values` that appends one match set per value must name every
// set OR except the last, which carries the callback's outbound/upstream name;
// an emitter without such a loop passes the callback's name unchanged.
func checkEmitterNaming(c *Ctx, rule string, e *core.Func, trim, idFunc, cbName string) int {
	info := e.Info()
	var rs *ast.RangeStmt
	ast.Inspect(e.Body, func(m ast.Node) bool {
		if r, ok := m.(*ast.RangeStmt); ok && core.ExprStr(r.X) == "values" && rs == nil {
			has := false
			ast.Inspect(r.Body, func(k ast.Node) bool {
				if ce, ok := k.(*ast.CallExpr); ok {
					if cal := core.Callee(info, ce); cal != nil && cal.Name() == idFunc {
						has = true
					}
				}
				return true
			})
			if has {
				rs = r
			}
		}
		return true
	})
	short := strings.TrimPrefix(e.Name, trim)
	if rs == nil {
		var calls []*ast.CallExpr
		core.EachCall(e.Body, core.Deep, func(ce *ast.CallExpr) {
			if cal := core.Callee(info, ce); cal != nil && cal.Name() == idFunc {
				calls = append(calls, ce)
			}
		})
		ok := len(calls) == 1 && core.ExprStr(calls[0].Args[0]) == cbName
		c.R.Checkf(rule, "single-set-outbound@"+short, c.pos(e.Pos()), ok, "%s emits one match set carrying the callback's name (%s) unchanged", short, cbName)
		return 1
	}
	// the values lowered are the values of the condition: the ranged slice is the parameter, and the parameter is
	// never replaced (only by the reviewed canonicalisation of prefix sets, which keeps the set of addresses)
	if id, isId := rs.X.(*ast.Ident); isId {
		obj := info.ObjectOf(id)
		_, isParam := paramIndex(e, obj)
		okVals, why := isParam, ""
		if !isParam {
			why = "the ranged slice is not the emitter's parameter"
		}
		ast.Inspect(e.Body, func(m ast.Node) bool {
			as, ok := m.(*ast.AssignStmt)
			if !ok {
				return true
			}
			for i, l := range as.Lhs {
				lid, ok := ast.Unparen(l).(*ast.Ident)
				if !ok || info.ObjectOf(lid) != obj {
					continue
				}
				reviewed := false
				if len(as.Rhs) == len(as.Lhs) {
					if cl, ok := ast.Unparen(as.Rhs[i]).(*ast.CallExpr); ok {
						if cal := core.Callee(info, cl); cal != nil && cal.Name() == "canonicalizePrefixes" {
							reviewed = true
						}
					}
				}
				if !reviewed {
					okVals = false
					why = "the parameter is replaced by " + core.ExprStr(as.Rhs[len(as.Rhs)-1]) + " before it is lowered"
				}
			}
			return true
		})
		c.R.Checkf(rule, "lowered-values-are-the-conditions-values@"+short, c.pos(rs.Pos()), okVals, "%s lowers exactly the values it is given, one match set per value (a rewritten list — merged, filtered or re-sorted ranges — changes which packets the condition matches)%s", short, func() string {
			if why == "" {
				return ""
			}
			return " — " + why
		}())
	}
	eg := e.Graph()
	var body *cfg.Block
	heads := map[*cfg.Block]bool{}
	for _, b := range eg.CFG.Blocks {
		if b.Stmt == ast.Stmt(rs) {
			switch b.Kind {
			case cfg.KindRangeBody:
				body = b
			case cfg.KindRangeLoop:
				heads[b] = true
			}
		}
	}
	lastPred := core.ExprStr(rs.Key) + " == len(values) - 1"
	found := false
	ast.Inspect(rs.Body, func(m ast.Node) bool {
		if be, ok := m.(*ast.BinaryExpr); ok && core.ExprStr(be) == lastPred {
			found = true
		}
		return true
	})
	okAll := found && body != nil
	detail := ""
	if !found {
		detail = " — no test of the form `" + lastPred + "` in the loop"
	}
	if okAll {
		for _, last := range []bool{false, true} {
			nameVals := map[string]bool{}
			var nameObj types.Object
			job := &fdt.Job{F: e, Start: core.Point{B: body, I: 0}, StopAt: heads, Inputs: map[string]constant.Value{lastPred: constant.MakeBool(last)}}
			job.Event = func(nd ast.Node, ev func(ast.Expr) string) string {
				if as, ok := nd.(*ast.AssignStmt); ok && len(as.Lhs) == 1 && len(as.Rhs) == 1 {
					if id, ok := as.Lhs[0].(*ast.Ident); ok {
						if t := info.TypeOf(id); t != nil && t.String() == "string" {
							if nameObj == nil || info.ObjectOf(id) == nameObj {
								return "name:" + id.Name + "=" + core.ExprStr(as.Rhs[0])
							}
						}
					}
				}
				res := ""
				ownCalls(nd, func(ce *ast.CallExpr, _ bool) {
					if cal := core.Callee(info, ce); cal != nil && cal.Name() == idFunc {
						if rs.Value != nil && core.ExprStr(ce.Args[0]) == core.ExprStr(rs.Value) {
							return // the rule operand (e.g. upstream(<name>)), not the set's outbound
						}
						res = "use=" + core.ExprStr(ce.Args[0])
					}
				})
				return res
			}
			for _, o := range job.Run() {
				cur := map[string]string{}
				emits := false
				for _, evs := range o.Events {
					if strings.HasPrefix(evs, "use=") {
						emits = true
					}
				}
				if !emits && o.Kind == "next" {
					okAll = false
					detail = fmt.Sprintf(" — for last=%v a path through the loop body goes on to the next value without emitting a match set: when the skipped value is the last one no set carries the rule's outbound and the rule fuses with the next one", last)
				}
				for _, evs := range o.Events {
					if strings.HasPrefix(evs, "name:") {
						kv := strings.SplitN(strings.TrimPrefix(evs, "name:"), "=", 2)
						cur[kv[0]] = kv[1]
					}
					if strings.HasPrefix(evs, "use=") {
						u := strings.TrimPrefix(evs, "use=")
						if v, ok := cur[u]; ok {
							nameVals[v] = true
						} else {
							nameVals[u] = true
						}
					}
				}
			}
			var nv []string
			for k := range nameVals {
				nv = append(nv, k)
			}
			sort.Strings(nv)
			got := strings.Join(nv, "|")
			want := "consts.OutboundLogicalOr.String()"
			if last {
				want = cbName
			}
			if got != want {
				okAll = false
				detail = fmt.Sprintf(" — for last=%v the set is named %q, want %q", last, got, want)
			}
		}
	}
	c.R.Checkf(rule, "multi-value-outbound@"+short, c.pos(rs.Pos()), okAll, "%s names every value's match set OR except the last, which carries the callback's name%s", short, detail)
	return 1
}


// paramIndex returns the index of obj among the function's parameters.
func paramIndex(f *core.Func, obj types.Object) (int, bool) {
	if f.Type == nil || f.Type.Params == nil || obj == nil {
		return 0, false
	}
	i := 0
	for _, fld := range f.Type.Params.List {
		for _, nm := range fld.Names {
			if f.Info().ObjectOf(nm) == obj {
				return i, true
			}
			i++
		}
	}
	return 0, false
}


// throughSingleDef replaces an identifier that names a local with exactly one assignment in body
// (a plain or parallel := / =) by the expression assigned to it; anything else is returned as is.
func throughSingleDef(info *types.Info, body ast.Node, e ast.Expr) ast.Expr {
	id, ok := ast.Unparen(e).(*ast.Ident)
	if !ok {
		return e
	}
	obj := info.ObjectOf(id)
	if v, isVar := obj.(*types.Var); !isVar || v.IsField() {
		return e
	}
	var rhs ast.Expr
	n := 0
	ast.Inspect(body, func(m ast.Node) bool {
		switch s := m.(type) {
		case *ast.AssignStmt:
			for i, l := range s.Lhs {
				if lid, ok := ast.Unparen(l).(*ast.Ident); ok && info.ObjectOf(lid) == obj {
					n++
					if len(s.Lhs) == len(s.Rhs) && (s.Tok == token.DEFINE || s.Tok == token.ASSIGN) {
						rhs = s.Rhs[i]
					} else {
						rhs = nil
						n++
					}
				}
			}
		case *ast.IncDecStmt:
			if lid, ok := ast.Unparen(s.X).(*ast.Ident); ok && info.ObjectOf(lid) == obj {
				n += 2
			}
		case *ast.RangeStmt:
			for _, l := range []ast.Expr{s.Key, s.Value} {
				if lid, ok := l.(*ast.Ident); ok && info.ObjectOf(lid) == obj {
					n += 2
				}
			}
		}
		return true
	})
	if n == 1 && rhs != nil {
		return rhs
	}
	return e
}
