package props

import (
	"go/ast"
	"go/types"

	"daecheck/internal/core"

	"golang.org/x/tools/go/cfg"
)

// deadlineExempt: arm sites that are terminal by design (rule+construct -> reason).
var deadlineExempt = map[string]string{
	// the half-close grace period is the bounded deadline the property demands;
	// rule C05/HALFCLOSE checks its shape separately.
	"dir.dst.SetReadDeadline@control.relayCore.run": "half-close grace period on the opposite direction's source (C05 clause 2); both conns are closed by handleConn when run returns",
}

// pairDeadlines decides PAIR.deadline for every function body in the scope:
// an armed Set*Deadline on a connection that outlives the function is
// disarmed (same receiver, zero time) or the connection is closed, on every
// path to a normal exit.
func pairDeadlines(c *Ctx, rule string, us []*core.Func) (arms int) {
	for _, f := range us {
		info := f.Info()
		g := f.Graph()
		type site struct {
			pt   core.Point
			call *ast.CallExpr
			key  string
			meth string
		}
		var sites []site
		for _, b := range g.CFG.Blocks {
			if !b.Live {
				continue
			}
			for i, n := range b.Nodes {
				ownCalls(n, func(call *ast.CallExpr, deferred bool) {
					recv, name, ok := methodCall(call)
					if !ok || !isDeadlineSetter(name) || len(call.Args) != 1 || deferred {
						return
					}
					if fnc := core.Callee(info, call); fnc == nil {
						return
					}
					if isZeroTimeLit(info, call.Args[0]) {
						return // disarm
					}
					// forwarder: SetXDeadline(t) { return inner.SetXDeadline(t) }
					if id, isId := ast.Unparen(call.Args[0]).(*ast.Ident); isId && f.Decl != nil && isDeadlineSetter(f.Decl.Name.Name) {
						if v, isVar := info.ObjectOf(id).(*types.Var); isVar && isParamOf(f, v) {
							return
						}
					}
					sites = append(sites, site{core.Point{B: b, I: i}, call, core.ExprStr(recv), name})
				})
			}
		}
		for _, s := range sites {
			arms++
			c.R.Saw(f)
			base := f.Name
			if f.Lit != nil {
				// key literals by their enclosing declaration so that line moves do not rename the obligation
				base = f.Name[:indexByte(f.Name, '$')]
			}
			construct := s.key + "." + s.meth + "@" + base
			if why, ok := deadlineExempt[s.key+"."+s.meth+"@"+base]; ok {
				c.R.Checkf(rule, construct, c.pos(s.call.Pos()), true, "exempt (frozen, one construct): %s", why)
				continue
			}
			key, meth := s.key, s.meth
			sat := func(n ast.Node) bool {
				found := false
				ownCalls(n, func(call *ast.CallExpr, deferred bool) {
					recv, name, ok := methodCall(call)
					if !ok || core.ExprStr(recv) != key {
						return
					}
					if name == "Close" {
						found = true
					}
					if (name == meth || name == "SetDeadline") && len(call.Args) == 1 && isZeroTimeLit(info, call.Args[0]) {
						found = true
					}
				})
				return found
			}
			// the arm's own error edge: `if err := x.SetReadDeadline(t); err != nil {…}` arms nothing
			var vetoB *cfg.Block
			if as, ok := s.pt.Node().(*ast.AssignStmt); ok && len(as.Lhs) == 1 {
				if id, ok := as.Lhs[0].(*ast.Ident); ok {
					if cond, _, _, ok := g.Cond(s.pt.B); ok && s.pt.I == len(s.pt.B.Nodes)-2 {
						if be, ok := cond.(*ast.BinaryExpr); ok && be.Op.String() == "!=" {
							if x, ok := be.X.(*ast.Ident); ok && info.ObjectOf(x) == info.ObjectOf(id) {
								vetoB = s.pt.B
							}
						}
					}
				}
			}
			ex := g.ExitsAvoidingE(s.pt.After(), sat, func(b *cfg.Block, si int) bool { return !(b == vetoB && si == 0) })
			if len(ex) == 0 {
				c.R.Checkf(rule, construct, c.pos(s.call.Pos()), true, "armed deadline is cleared (or the conn closed) on every path to exit")
			} else {
				w := ex[0]
				c.R.Checkf(rule, construct, c.pos(s.call.Pos()), false,
					"%s arms %s.%s; the path to the exit at %s (lines %s) neither clears it with time.Time{} nor closes %s: the deadline outlives the detection window and cuts the connection later",
					base, key, meth, c.pos(w.Pos), traceStr(c.P, w.Trace), key)
			}
		}
	}
	return arms
}

func isParamOf(f *core.Func, v *types.Var) bool {
	if f.Obj == nil {
		return false
	}
	sig := f.Obj.Type().(*types.Signature)
	for i := 0; i < sig.Params().Len(); i++ {
		if sig.Params().At(i) == v {
			return true
		}
	}
	return false
}

func indexByte(s string, b byte) int {
	for i := 0; i < len(s); i++ {
		if s[i] == b {
			return i
		}
	}
	return len(s)
}
