package props

import (
	"go/ast"
	"go/types"
	"strings"

	"daecheck/internal/core"

	"golang.org/x/tools/go/cfg"
)

// deadlineExempt: arm sites that are terminal by design (rule+construct -> reason).
var deadlineExempt = map[string]string{
	// the half-close grace period is the bounded deadline the property demands;
	// rule C05/HALFCLOSE checks its shape separately.
	"dir.dst.SetReadDeadline@control.relayCore.run": "half-close grace period on the opposite direction's source (C05 clause 2); both conns are closed by handleConn when run returns",
}

// pairDeadlines decides PAIR.deadline for every function body in the scope:
// an armed Set*Deadline on a connection that outlives the function is
// disarmed (same receiver, zero time) or the connection is closed, on every
// path to a normal exit.
func pairDeadlines(c *Ctx, rule string, us []*core.Func) (arms int) {
	for _, f := range us {
		info := f.Info()
		g := f.Graph()
		type site struct {
			pt   core.Point
			call *ast.CallExpr
			key  string
			meth string
		}
		var sites []site
		for _, b := range g.CFG.Blocks {
			if !b.Live {
				continue
			}
			for i, n := range b.Nodes {
				ownCalls(n, func(call *ast.CallExpr, deferred bool) {
					recv, name, ok := methodCall(call)
					if !ok || !isDeadlineSetter(name) || len(call.Args) != 1 || deferred {
						return
					}
					if fnc := core.Callee(info, call); fnc == nil {
						return
					}
					if isZeroTimeLit(info, call.Args[0]) {
						return // disarm
					}
					// forwarder: SetXDeadline(t) { return inner.SetXDeadline(t) }
					if id, isId := ast.Unparen(call.Args[0]).(*ast.Ident); isId && f.Decl != nil && isDeadlineSetter(f.Decl.Name.Name) {
						if v, isVar := info.ObjectOf(id).(*types.Var); isVar && isParamOf(f, v) {
							return
						}
					}
					sites = append(sites, site{core.Point{B: b, I: i}, call, core.ExprStr(recv), name})
				})
			}
		}
		for _, s := range sites {
			arms++
			c.R.Saw(f)
			base := f.Name
			if f.Lit != nil {
				// key literals by their enclosing declaration so that line moves do not rename the obligation
				base = f.Name[:indexByte(f.Name, '$')]
			}
			construct := s.key + "." + s.meth + "@" + base
			if why, ok := deadlineExempt[s.key+"."+s.meth+"@"+base]; ok {
				c.R.Checkf(rule, construct, c.pos(s.call.Pos()), true, "exempt (frozen, one construct): %s", why)
				continue
			}
			key, meth := s.key, s.meth
			sat := func(n ast.Node) bool {
				found := false
				ownCalls(n, func(call *ast.CallExpr, deferred bool) {
					recv, name, ok := methodCall(call)
					if !ok || core.ExprStr(recv) != key {
						return
					}
					if name == "Close" {
						found = true
					}
					if (name == meth || name == "SetDeadline") && len(call.Args) == 1 && isZeroTimeLit(info, call.Args[0]) {
						found = true
					}
				})
				return found
			}
			// the arm's own error edge: `if err := x.SetReadDeadline(t); err != nil {…}` arms nothing
			var vetoB *cfg.Block
			if as, ok := s.pt.Node().(*ast.AssignStmt); ok && len(as.Lhs) == 1 {
				if id, ok := as.Lhs[0].(*ast.Ident); ok {
					if cond, _, _, ok := g.Cond(s.pt.B); ok && s.pt.I == len(s.pt.B.Nodes)-2 {
						if be, ok := cond.(*ast.BinaryExpr); ok && be.Op.String() == "!=" {
							if x, ok := be.X.(*ast.Ident); ok && info.ObjectOf(x) == info.ObjectOf(id) {
								vetoB = s.pt.B
							}
						}
					}
				}
			}
			ex := g.ExitsAvoidingE(s.pt.After(), sat, func(b *cfg.Block, si int) bool { return !(b == vetoB && si == 0) })
			if len(ex) == 0 {
				c.R.Checkf(rule, construct, c.pos(s.call.Pos()), true, "armed deadline is cleared (or the conn closed) on every path to exit")
			} else {
				w := ex[0]
				c.R.Checkf(rule, construct, c.pos(s.call.Pos()), false,
					"%s arms %s.%s; the path to the exit at %s (lines %s) neither clears it with time.Time{} nor closes %s: the deadline outlives the detection window and cuts the connection later",
					base, key, meth, c.pos(w.Pos), traceStr(c.P, w.Trace), key)
			}
		}
	}
	return arms
}

func isParamOf(f *core.Func, v *types.Var) bool {
	if f.Obj == nil {
		return false
	}
	sig := f.Obj.Type().(*types.Signature)
	for i := 0; i < sig.Params().Len(); i++ {
		if sig.Params().At(i) == v {
			return true
		}
	}
	return false
}

func indexByte(s string, b byte) int {
	for i := 0; i < len(s); i++ {
		if s[i] == b {
			return i
		}
	}
	return len(s)
}

// armedReads decides the converse of PAIR.deadline: in a function that arms a
// read deadline on a connection for a detection window, every read from that
// connection that can follow an arm is dominated by an arm — the deadline is
// not installed under a condition (a flag, a first-time test) that later reads
// of the same window bypass while the disarm still runs after each of them.
func armedReads(c *Ctx, rule string, us []*core.Func) (reads int) {
	for _, f := range us {
		info := f.Info()
		g := f.Graph()
		keys := map[string]bool{}
		isArmOn := func(key string) func(ast.Node) bool {
			return func(n ast.Node) bool {
				found := false
				ownCalls(n, func(call *ast.CallExpr, deferred bool) {
					recv, name, ok := methodCall(call)
					if !ok || deferred || len(call.Args) != 1 || (name != "SetReadDeadline" && name != "SetDeadline") {
						return
					}
					if isZeroTimeLit(info, call.Args[0]) || core.ExprStr(recv) != key {
						return
					}
					found = true
				})
				return found
			}
		}
		for _, b := range g.CFG.Blocks {
			if !b.Live {
				continue
			}
			for _, n := range b.Nodes {
				ownCalls(n, func(call *ast.CallExpr, deferred bool) {
					recv, name, ok := methodCall(call)
					if ok && !deferred && len(call.Args) == 1 && (name == "SetReadDeadline" || name == "SetDeadline") && !isZeroTimeLit(info, call.Args[0]) {
						if f.Decl != nil && isDeadlineSetter(f.Decl.Name.Name) {
							return // forwarder
						}
						keys[core.ExprStr(recv)] = true
					}
				})
			}
		}
		for key := range keys {
			arm := isArmOn(key)
			isRead := func(n ast.Node) bool {
				found := false
				ownCalls(n, func(call *ast.CallExpr, deferred bool) {
					if deferred {
						return
					}
					recv, name, ok := methodCall(call)
					if ok && core.ExprStr(recv) == key && (name == "Read" || name == "ReadFrom") {
						found = true
					}
					if cal := core.Callee(info, call); cal != nil && strings.Contains(cal.Name(), "Read") && !strings.Contains(cal.Name(), "Deadline") {
						for _, a := range call.Args {
							if core.ExprStr(a) == key {
								found = true
							}
						}
					}
				})
				return found
			}
			for _, rp := range g.Find(isRead) {
				// in scope only if some arm can precede it
				after := false
				for _, ap := range g.Find(arm) {
					if _, _, r := g.ReachesAvoiding(ap.After(), func(ast.Node) bool { return false }, func(n ast.Node) bool { return n == rp.Node() }); r {
						after = true
					}
				}
				if !after {
					continue
				}
				reads++
				c.R.Saw(f)
				base := f.Name
				if f.Lit != nil {
					base = f.Name[:indexByte(f.Name, '$')]
				}
				target := rp.Node()
				_, tr, reach := g.ReachesAvoiding(g.Entry(), arm, func(n ast.Node) bool { return n == target })
				construct := "read-of-" + key + "-is-armed@" + base
				if !reach {
					c.R.Checkf(rule, construct, c.pos(target.Pos()), true, "every path to this read of %s passes an arm of its read deadline", key)
				} else {
					c.R.Checkf(rule, construct, c.pos(target.Pos()), false, "%s reads from %s at %s on a path (lines %s) that does not arm the read deadline although the function arms it elsewhere and disarms after the read: a later read of the same detection window blocks without a deadline", base, key, c.pos(target.Pos()), traceStr(c.P, tr))
				}
			}
		}
	}
	return reads
}
