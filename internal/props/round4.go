package props

// Rules added after the fourth seeding round (DESIGN.md §9.10).

import (
	"fmt"
	"go/ast"
	"go/token"
	"go/types"
	"strings"

	"daecheck/internal/core"
)

// POOLESCAPE: a buffer taken from a sync.Pool and given back by a deferred Put
// never escapes the function: no return value and no struct literal holds a
// slice of it (what escapes must be a copy).
func poolEscape(c *Ctx, rule string, rels []string, keepFile func(string) bool) int {
	n := 0
	for _, rel := range rels {
		for _, f := range c.P.FuncsIn(rel) {
			if keepFile != nil && !keepFile(filepathBase(f.File())) {
				continue
			}
			info := f.Info()
			// pooled objects: x := P.Get().(T) with a deferred P.Put(x)
			pooled := map[types.Object]bool{}
			ast.Inspect(f.Body, func(m ast.Node) bool {
				ds, ok := m.(*ast.DeferStmt)
				if !ok {
					return true
				}
				if _, name, isM := methodCall(ds.Call); isM && name == "Put" && len(ds.Call.Args) == 1 {
					if id, ok := ast.Unparen(ds.Call.Args[0]).(*ast.Ident); ok {
						pooled[info.ObjectOf(id)] = true
					}
				}
				return true
			})
			if len(pooled) == 0 {
				continue
			}
			// taint propagation through slicing / dereference / plain assignment
			tainted := map[types.Object]bool{}
			for o := range pooled {
				tainted[o] = true
			}
			var isTainted func(e ast.Expr) bool
			isTainted = func(e ast.Expr) bool {
				switch x := ast.Unparen(e).(type) {
				case *ast.Ident:
					return tainted[info.ObjectOf(x)]
				case *ast.StarExpr:
					return isTainted(x.X)
				case *ast.SliceExpr:
					return isTainted(x.X)
				case *ast.UnaryExpr:
					return isTainted(x.X)
				}
				return false
			}
			for changed := true; changed; {
				changed = false
				ast.Inspect(f.Body, func(m ast.Node) bool {
					as, ok := m.(*ast.AssignStmt)
					if !ok || len(as.Lhs) != len(as.Rhs) {
						return true
					}
					for i, r := range as.Rhs {
						if id, ok := as.Lhs[i].(*ast.Ident); ok && isTainted(r) {
							if o := info.ObjectOf(id); o != nil && !tainted[o] {
								if _, isSlice := o.Type().Underlying().(*types.Slice); isSlice {
									tainted[o] = true
									changed = true
								}
							}
						}
					}
					return true
				})
			}
			n++
			c.R.Saw(f)
			bad := ""
			ast.Inspect(f.Body, func(m ast.Node) bool {
				switch x := m.(type) {
				case *ast.FuncLit:
					return false
				case *ast.ReturnStmt:
					for _, r := range x.Results {
						if _, isSlice := info.TypeOf(r).Underlying().(*types.Slice); isSlice && isTainted(r) && bad == "" {
							bad = fmt.Sprintf("return of %s at %s", core.ExprStr(r), c.pos(x.Pos()))
						}
					}
				case *ast.KeyValueExpr:
					if t := info.TypeOf(x.Value); t != nil {
						if _, isSlice := t.Underlying().(*types.Slice); isSlice && isTainted(x.Value) && bad == "" {
							bad = fmt.Sprintf("struct field %s: %s at %s", core.ExprStr(x.Key), core.ExprStr(x.Value), c.pos(x.Pos()))
						}
					}
				}
				return true
			})
			c.R.Checkf(rule, "pooled-buffer-does-not-escape@"+strings.TrimPrefix(f.Name, rel+"."), c.pos(f.Pos()), bad == "",
				"no slice of the buffer this function takes from a pool (and puts back by defer) is returned or stored in a struct%s", func() string {
					if bad != "" {
						return " — VIOLATED: " + bad + ": the next user of the pooled buffer overwrites bytes that are still waiting to be relayed for this connection"
					}
					return ""
				}())
		}
	}
	return n
}

// C06: when two CRYPTO ranges overlap, the merged copy skips the overlapping part of the later frame
func c06CryptoMergeSkipsOverlap(c *Ctx) {
	const rule = "LOCATOR"
	f := c.fn(rule, "component/sniffing/internal/quicutils", "ReassembleCryptos")
	if f == nil {
		return
	}
	info := f.Info()
	// the later frame: a *CryptoFrameOffset variable declared inside a loop body
	later := map[types.Object]bool{}
	ast.Inspect(f.Body, func(m ast.Node) bool {
		var body *ast.BlockStmt
		switch x := m.(type) {
		case *ast.ForStmt:
			body = x.Body
		case *ast.RangeStmt:
			body = x.Body
			if id, ok := x.Value.(*ast.Ident); ok {
				if o := info.ObjectOf(id); o != nil && strings.HasSuffix(o.Type().String(), "CryptoFrameOffset") {
					later[o] = true
				}
			}
		}
		if body == nil {
			return true
		}
		ast.Inspect(body, func(k ast.Node) bool {
			if id, ok := k.(*ast.Ident); ok {
				if o := info.Defs[id]; o != nil && strings.HasSuffix(o.Type().String(), "CryptoFrameOffset") {
					later[o] = true
				}
			}
			return true
		})
		return true
	})
	singleDef := func(id *ast.Ident) ast.Expr {
		o := info.ObjectOf(id)
		var rhs ast.Expr
		cnt := 0
		ast.Inspect(f.Body, func(m ast.Node) bool {
			if as, ok := m.(*ast.AssignStmt); ok && len(as.Lhs) == len(as.Rhs) {
				for i, l := range as.Lhs {
					if lid, ok := l.(*ast.Ident); ok && info.ObjectOf(lid) == o {
						rhs = as.Rhs[i]
						cnt++
					}
				}
			}
			return true
		})
		if cnt == 1 {
			return rhs
		}
		return nil
	}
	isLaterData := func(e ast.Expr) (types.Object, bool) {
		sel, ok := ast.Unparen(e).(*ast.SelectorExpr)
		if !ok || sel.Sel.Name != "Data" {
			return nil, false
		}
		id, ok := ast.Unparen(sel.X).(*ast.Ident)
		if !ok || !later[info.ObjectOf(id)] {
			return nil, false
		}
		return info.ObjectOf(id), true
	}
	skipsOverlap := func(low ast.Expr, fr types.Object) bool {
		low = ast.Unparen(low)
		if id, ok := low.(*ast.Ident); ok {
			if d := singleDef(id); d != nil {
				low = ast.Unparen(d)
			}
		}
		be, ok := low.(*ast.BinaryExpr)
		if !ok || be.Op != token.SUB {
			return false
		}
		sel, ok := ast.Unparen(be.Y).(*ast.SelectorExpr)
		if !ok || sel.Sel.Name != "UpperAppOffset" {
			return false
		}
		id, ok := ast.Unparen(sel.X).(*ast.Ident)
		return ok && info.ObjectOf(id) == fr
	}
	sliced, bad := 0, ""
	var visit func(n ast.Node, parent ast.Node)
	var stack []ast.Node
	ast.Inspect(f.Body, func(m ast.Node) bool {
		if m == nil {
			stack = stack[:len(stack)-1]
			return true
		}
		var par ast.Node
		if len(stack) > 0 {
			par = stack[len(stack)-1]
		}
		stack = append(stack, m)
		e, ok := m.(ast.Expr)
		if !ok {
			return true
		}
		fr, isD := isLaterData(e)
		if !isD {
			return true
		}
		switch x := par.(type) {
		case *ast.CallExpr:
			if id, ok := x.Fun.(*ast.Ident); ok && id.Name == "len" {
				return true
			}
		case *ast.SliceExpr:
			if x.X == e && x.Low != nil {
				sliced++
				if !skipsOverlap(x.Low, fr) && bad == "" {
					bad = fmt.Sprintf("%s at %s", core.ExprStr(x), c.pos(x.Pos()))
				}
				return true
			}
		}
		if bad == "" {
			bad = fmt.Sprintf("%s used whole at %s", core.ExprStr(e), c.pos(e.Pos()))
		}
		return true
	})
	_ = visit
	c.R.Checkf(rule, "crypto-merge-skips-the-overlap@ReassembleCryptos", c.pos(f.Pos()), bad == "" && sliced >= 1,
		"inside the merge loop the later frame's bytes are only taken from (end of current range − the later frame's offset) onwards (%d sliced use(s))%s: a retransmission framed differently overlaps the data already held, and copying the frame from its first byte duplicates the overlap inside the ClientHello (the server name is reported wrong)", sliced, func() string {
			if bad != "" {
				return " — VIOLATED: " + bad
			}
			return ""
		}())
}

// makeThenAppend: a slice that is appended to is not created with a non-zero length
func makeThenAppend(c *Ctx, rule string, f *core.Func) {
	info := f.Info()
	appended := map[types.Object]bool{}
	ast.Inspect(f.Body, func(m ast.Node) bool {
		if call, ok := m.(*ast.CallExpr); ok {
			if id, ok := call.Fun.(*ast.Ident); ok && id.Name == "append" && len(call.Args) >= 1 {
				if aid, ok := ast.Unparen(call.Args[0]).(*ast.Ident); ok {
					appended[info.ObjectOf(aid)] = true
				}
			}
		}
		return true
	})
	n, bad := 0, ""
	ast.Inspect(f.Body, func(m ast.Node) bool {
		as, ok := m.(*ast.AssignStmt)
		if !ok || len(as.Lhs) != len(as.Rhs) {
			return true
		}
		for i, r := range as.Rhs {
			call, ok := ast.Unparen(r).(*ast.CallExpr)
			if !ok {
				continue
			}
			id, ok := call.Fun.(*ast.Ident)
			if !ok || id.Name != "make" || len(call.Args) != 2 {
				continue
			}
			lid, ok := as.Lhs[i].(*ast.Ident)
			if !ok || !appended[info.ObjectOf(lid)] {
				continue
			}
			n++
			if tv, has := info.Types[call.Args[1]]; !(has && tv.Value != nil && tv.Value.String() == "0") && bad == "" {
				bad = fmt.Sprintf("%s = %s at %s", lid.Name, core.ExprStr(call), c.pos(as.Pos()))
			}
		}
		return true
	})
	c.R.Checkf(rule, "appended-slice-starts-empty@"+f.Name, c.pos(f.Pos()), bad == "",
		"no slice that %s appends to is created with a non-zero length (%d make site(s))%s", f.Name, n, func() string {
			if bad != "" {
				return " — VIOLATED: " + bad + ": the zero elements in front of the appended ones are real values to the consumer (a zero netip.Addr is matched as `::`)"
			}
			return ""
		}())
}

// C09: a cached forwarder entry is taken out of the cache by identity
func c09RemoveByIdentity(c *Ctx) {
	const rule = "LIFECYCLE"
	n := 0
	for _, f := range c.P.FuncsIn("control") {
		if f.Decl == nil {
			continue
		}
		info := f.Info()
		// functions that retire a specific entry passed in as a parameter
		var entry types.Object
		for _, fl := range f.Decl.Type.Params.List {
			for _, nm := range fl.Names {
				if p, ok := info.TypeOf(nm).(*types.Pointer); ok {
					if nmd := namedOf(p); nmd != nil && nmd.Obj().Name() == "cachedDnsForwarder" {
						entry = info.ObjectOf(nm)
					}
				}
			}
		}
		if entry == nil {
			continue
		}
		core.EachCall(f.Body, core.Deep, func(call *ast.CallExpr) {
			recv, name, ok := methodCall(call)
			if !ok || !strings.HasSuffix(core.ExprStr(recv), ".dnsForwarderCache") {
				return
			}
			switch name {
			case "Delete", "LoadAndDelete":
				n++
				c.R.Checkf(rule, "entry-unpublished-by-identity@"+strings.TrimPrefix(f.Name, "control."), c.pos(call.Pos()), false,
					"%s removes the cache slot of its key with %s although it retires one specific entry: if a successor was already published under the key, the live successor is dropped from the cache without being retired (never closed; the next query dials a third forwarder)", strings.TrimPrefix(f.Name, "control."), name)
			case "CompareAndDelete":
				n++
				okId := false
				if len(call.Args) == 2 {
					if id, ok := ast.Unparen(call.Args[1]).(*ast.Ident); ok && info.ObjectOf(id) == entry {
						okId = true
					}
				}
				c.R.Checkf(rule, "entry-unpublished-by-identity@"+strings.TrimPrefix(f.Name, "control."), c.pos(call.Pos()), okId, "the entry being retired is removed with CompareAndDelete(key, entry): a successor published under the same key stays")
			}
		})
	}
	c.R.Floor(rule+"/entry-removals", n, 1)
}

// C12: the index recorded for a new LPM set is the position it is appended at
func c12IndexIsAppendPosition(c *Ctx) {
	const rule = "SHARE"
	n := 0
	for _, f := range c.P.FuncsIn("control") {
		if f.Decl == nil || f.Body == nil {
			continue
		}
		info := f.Info()
		mentions := func(st ast.Node) bool {
			hit := false
			ast.Inspect(st, func(m ast.Node) bool {
				if e, ok := m.(ast.Expr); ok && core.FieldOf(info, e) == "RoutingMatcherBuilder.simulatedLpmTries" {
					hit = true
				}
				return !hit
			})
			return hit
		}
		// parents of every statement
		parent := map[ast.Node]ast.Node{}
		var stack []ast.Node
		ast.Inspect(f.Body, func(m ast.Node) bool {
			if m == nil {
				stack = stack[:len(stack)-1]
				return true
			}
			if len(stack) > 0 {
				parent[m] = stack[len(stack)-1]
			}
			stack = append(stack, m)
			return true
		})
		k := 0
		ast.Inspect(f.Body, func(m ast.Node) bool {
			as, ok := m.(*ast.AssignStmt)
			if !ok || len(as.Lhs) != 1 || len(as.Rhs) != 1 {
				return true
			}
			call, ok := as.Rhs[0].(*ast.CallExpr)
			if !ok {
				return true
			}
			id, ok := call.Fun.(*ast.Ident)
			if !ok || id.Name != "append" || len(call.Args) < 2 || core.FieldOf(info, call.Args[0]) != "RoutingMatcherBuilder.simulatedLpmTries" {
				return true
			}
			n++
			k++
			want := nospace("len(" + core.ExprStr(call.Args[0]) + ")")
			// walk backwards: preceding statements of this block, then of the enclosing blocks
			got, okIdx := "no statement reads the slot list's length before the append", false
			var cur ast.Node = as
		up:
			for cur != nil {
				par := parent[cur]
				var list []ast.Stmt
				switch x := par.(type) {
				case *ast.BlockStmt:
					list = x.List
				case *ast.CaseClause:
					list = x.Body
				}
				idx := -1
				for i, st := range list {
					if ast.Node(st) == cur {
						idx = i
					}
				}
				for i := idx - 1; i >= 0; i-- {
					if !mentions(list[i]) {
						continue
					}
					if _, isIf := list[i].(*ast.IfStmt); isIf {
						continue // a test on the table (e.g. a capacity check) is not the index
					}
					got = core.ExprStr2(list[i])
					ast.Inspect(list[i], func(k ast.Node) bool {
						if lc, ok := k.(*ast.CallExpr); ok && len(lc.Args) == 1 {
							if lid, ok := lc.Fun.(*ast.Ident); ok && lid.Name == "len" && core.FieldOf(info, lc.Args[0]) == "RoutingMatcherBuilder.simulatedLpmTries" {
								okIdx = true
							}
						}
						return true
					})
					break up
				}
				cur = par
			}
			c.R.Checkf(rule, fmt.Sprintf("set-index-is-its-append-position@%s#%d", strings.TrimPrefix(f.Name, "control."), k), c.pos(as.Pos()), okIdx,
				"the last statement before this append that touches the slot list reads its length (%s) — that is the index recorded for the appended set (got: %s): an index counted from another table (e.g. the dedup table, which MAC sets do not enter) points ip() rules at the previous set's storage", want, truncRunes(got, 120))
			return true
		})
	}
	c.R.Floor(rule+"/append-sites", n, 1)
}

// C13: an endpoint removes only itself from the pool
func c13SelfRemoveIdentity(c *Ctx) {
	const rule = "REMOVED"
	f := c.fn(rule, "control", "UdpEndpoint.selfRemoveFromPool")
	if f == nil {
		return
	}
	info := f.Info()
	g := f.Graph()
	var recv types.Object
	if len(f.Decl.Recv.List[0].Names) > 0 {
		recv = info.ObjectOf(f.Decl.Recv.List[0].Names[0])
	}
	n, ok := 0, true
	for _, b := range g.CFG.Blocks {
		if !b.Live {
			continue
		}
		for i, nd := range b.Nodes {
			isDel := false
			ownCalls(nd, func(call *ast.CallExpr, _ bool) {
				if id, isId := call.Fun.(*ast.Ident); isId && id.Name == "delete" {
					isDel = true
				}
			})
			if !isDel {
				continue
			}
			n++
			guarded := false
			for _, gd := range g.Guards(core.Point{B: b, I: i}) {
				for _, at := range core.Atoms(gd.Cond, gd.Polarity) {
					be, isB := at.Cond.(*ast.BinaryExpr)
					if !isB || be.Op != token.EQL || !at.Polarity {
						continue
					}
					for _, side := range []ast.Expr{be.X, be.Y} {
						if id, isId := ast.Unparen(side).(*ast.Ident); isId && info.ObjectOf(id) == recv {
							guarded = true
						}
					}
				}
			}
			if !guarded {
				ok = false
			}
		}
	}
	c.R.Checkf(rule, "self-removal-only-removes-itself@selfRemoveFromPool", c.pos(f.Pos()), ok && n >= 1,
		"the map entry is deleted only on the edge where the slot's occupant is this very endpoint (%d delete site(s)): a late second retire of an endpoint that was already replaced would otherwise evict its live successor, which is then never closed", n)
}

func truncRunes(s string, n int) string {
	r := []rune(s)
	if len(r) <= n {
		return s
	}
	return string(r[:n]) + "…"
}
