package props

import (
	"go/ast"
	"go/token"
	"go/types"
	"strings"

	"daecheck/internal/core"

	"golang.org/x/tools/go/cfg"
)

// SHORTWRITE: in every read/write copy loop (nw, ew := dst.Write(buf[:nr])) the
// next refill of the buffer and every success return are reachable from the
// write only through the edge on which the write is known to be complete
// (!(nw < nr)); the short-write edge only returns errors. Otherwise the
// unwritten tail buf[nw:nr] is silently lost.
func c05ShortWrite(c *Ctx) {
	const rule = "SHORTWRITE"
	n := 0
	for _, rel := range []string{"control", "component/sniffing"} {
		for _, f := range units(c.P, rel, nil) {
			info := f.Info()
			g := f.Graph()
			for _, b := range g.CFG.Blocks {
				if !b.Live {
					continue
				}
				for i, nd := range b.Nodes {
					as, ok := nd.(*ast.AssignStmt)
					if !ok || len(as.Lhs) != 2 || len(as.Rhs) != 1 {
						continue
					}
					call, ok := as.Rhs[0].(*ast.CallExpr)
					if !ok || len(call.Args) != 1 {
						continue
					}
					_, name, isM := methodCall(call)
					if !isM || name != "Write" {
						continue
					}
					sl, ok := ast.Unparen(call.Args[0]).(*ast.SliceExpr)
					if !ok || sl.Low != nil || sl.High == nil {
						continue
					}
					nrId, ok1 := ast.Unparen(sl.High).(*ast.Ident)
					nwId, ok2 := as.Lhs[0].(*ast.Ident)
					if !ok1 || !ok2 || nwId.Name == "_" {
						continue
					}
					nr, nw := info.ObjectOf(nrId), info.ObjectOf(nwId)
					bufObj := core.RootObj(info, sl.X)
					n++
					c.R.Saw(f)
					isRefill := func(m ast.Node) bool {
						hit := false
						ownCalls(m, func(cl *ast.CallExpr, _ bool) {
							if _, nm, ok := methodCall(cl); ok && nm == "Read" && len(cl.Args) == 1 && core.RootObj(info, cl.Args[0]) == bufObj {
								hit = true
							}
						})
						if rs, ok := m.(*ast.ReturnStmt); ok {
							if len(rs.Results) == 0 {
								hit = true // naked return: success unless err was set; treated as a success exit
							} else if core.ExprStr(rs.Results[len(rs.Results)-1]) == "nil" {
								hit = true
							}
						}
						return hit
					}
					var hitNode ast.Node
					var trace []token.Pos
					w := &core.Walker{G: g,
						Visit: func(m ast.Node) core.Verdict {
							if hitNode != nil {
								return core.Stop
							}
							if isRefill(m) {
								return core.Hit
							}
							return core.Go
						},
						Edge: func(from *cfg.Block, si int) bool {
							cond, _, _, ok := g.Cond(from)
							if !ok {
								return true
							}
							for _, at := range core.Atoms(cond, si == 0) {
								be, ok := at.Cond.(*ast.BinaryExpr)
								if !ok {
									continue
								}
								x, xo := ast.Unparen(be.X).(*ast.Ident)
								y, yo := ast.Unparen(be.Y).(*ast.Ident)
								if !xo || !yo {
									continue
								}
								op := be.Op
								if info.ObjectOf(x) == nr && info.ObjectOf(y) == nw {
									// normalise to nw OP nr
									op = map[token.Token]token.Token{token.GTR: token.LSS, token.LSS: token.GTR, token.GEQ: token.LEQ, token.LEQ: token.GEQ, token.EQL: token.EQL, token.NEQ: token.NEQ}[op]
								} else if !(info.ObjectOf(x) == nw && info.ObjectOf(y) == nr) {
									continue
								}
								complete := false
								switch op {
								case token.LSS, token.NEQ: // nw < nr, nw != nr
									complete = !at.Polarity
								case token.GEQ, token.EQL: // nw >= nr, nw == nr
									complete = at.Polarity
								}
								if complete {
									return false // the write is known complete on this edge
								}
							}
							return true
						},
						OnHit: func(m ast.Node, tr []token.Pos) {
							if hitNode == nil {
								hitNode, trace = m, tr
							}
						}}
					w.Run(core.Point{B: b, I: i}.After())
					construct := "short-write-ends-relay@" + strings.TrimPrefix(f.Name, rel+".")
					if hitNode == nil {
						c.R.Checkf(rule, construct, c.pos(as.Pos()), true, "after %s the next refill of %s and every success return lie behind the edge on which %s == %s; the short-write edge only returns errors", core.ExprStr(as.Rhs[0]), core.ExprStr(sl.X), nwId.Name, nrId.Name)
					} else {
						c.R.Checkf(rule, construct, c.pos(hitNode.Pos()), false, "after %s at %s, %s is reached (lines %s) without the write having been tested complete (%s < %s): the unwritten tail of the buffer is dropped from the stream", core.ExprStr(as.Rhs[0]), c.pos(as.Pos()), c.pos(hitNode.Pos()), traceStr(c.P, trace), nwId.Name, nrId.Name)
					}
				}
			}
		}
	}
	c.R.Floor(rule, n, 3)
}

// ADVANCE: a loop-carried cursor (segment list, in-pipe byte count, slice) is
// advanced by the count of the I/O in the same iteration, never by a running
// total; a loop-invariant base is advanced by the running total, never by the
// last count.
func c05Advance(c *Ctx) {
	const rule = "ADVANCE"
	sites := 0
	for _, f := range c.P.FuncsIn("control") {
		if f.Decl == nil || !strings.HasPrefix(filepathBase(f.File()), "tcp_copy") {
			continue
		}
		info := f.Info()
		// counts: first result of a two-result call (integer, error)
		counts := map[types.Object]bool{}
		ast.Inspect(f.Body, func(m ast.Node) bool {
			as, ok := m.(*ast.AssignStmt)
			if !ok || len(as.Lhs) != 2 || len(as.Rhs) != 1 {
				return true
			}
			call, ok := as.Rhs[0].(*ast.CallExpr)
			if !ok {
				return true
			}
			tup, ok := info.TypeOf(call).(*types.Tuple)
			if !ok || tup.Len() != 2 {
				return true
			}
			if bt, ok := tup.At(0).Type().Underlying().(*types.Basic); !ok || bt.Info()&types.IsInteger == 0 {
				return true
			}
			if id, ok := as.Lhs[0].(*ast.Ident); ok && id.Name != "_" {
				counts[info.ObjectOf(id)] = true
			}
			return true
		})
		if len(counts) == 0 {
			continue
		}
		refs := func(e ast.Expr, set map[types.Object]bool) (types.Object, bool) {
			var hit types.Object
			ast.Inspect(e, func(m ast.Node) bool {
				if id, ok := m.(*ast.Ident); ok {
					if o := info.ObjectOf(id); o != nil && set[o] {
						hit = o
					}
				}
				return true
			})
			return hit, hit != nil
		}
		accum := map[types.Object]bool{}
		assignedInLoop := map[types.Object]bool{}
		ast.Inspect(f.Body, func(m ast.Node) bool {
			as, ok := m.(*ast.AssignStmt)
			if !ok {
				return true
			}
			for _, l := range as.Lhs {
				if o := core.RootObj(info, l); o != nil {
					assignedInLoop[o] = true
				}
			}
			if as.Tok == token.ADD_ASSIGN && len(as.Lhs) == 1 {
				if _, ok := refs(as.Rhs[0], counts); ok {
					if id, ok := as.Lhs[0].(*ast.Ident); ok {
						accum[info.ObjectOf(id)] = true
					}
				}
			}
			return true
		})
		check := func(pos token.Pos, what string, base ast.Expr, target ast.Expr, k ast.Expr) {
			sites++
			c.R.Saw(f)
			carried := target != nil && base != nil && core.RootObj(info, base) != nil && core.RootObj(info, base) == core.RootObj(info, target)
			construct := "advance-by-this-iterations-count@" + f.Name + "/" + nospace(what)
			acc, usesAcc := refs(k, accum)
			_, usesCnt := refs(k, counts)
			switch {
			case carried && usesAcc:
				c.R.Checkf(rule, construct, c.pos(pos), false, "%s advances the loop-carried cursor %s by the running total %s: after a second partial write the bytes already skipped are skipped again and stream bytes are lost", what, core.ExprStr(base), acc.Name())
			case !carried && base != nil && !assignedInLoop[core.RootObj(info, base)] && usesCnt && !usesAcc && target != nil:
				c.R.Checkf(rule, construct, c.pos(pos), false, "%s advances the loop-invariant base %s by the last write's count only: bytes written by earlier iterations are sent again", what, core.ExprStr(base))
			default:
				c.R.Checkf(rule, construct, c.pos(pos), true, "%s advances %s by the count returned by the I/O call of the same iteration", what, core.ExprStr(base))
			}
		}
		ast.Inspect(f.Body, func(m ast.Node) bool {
			as, ok := m.(*ast.AssignStmt)
			if !ok || len(as.Lhs) != 1 || len(as.Rhs) != 1 {
				return true
			}
			switch as.Tok {
			case token.SUB_ASSIGN:
				if _, ok := refs(as.Rhs[0], counts); ok {
					check(as.Pos(), core.ExprStr(as.Lhs[0])+" -= "+core.ExprStr(as.Rhs[0]), as.Lhs[0], as.Lhs[0], as.Rhs[0])
				} else if _, ok := refs(as.Rhs[0], accum); ok {
					check(as.Pos(), core.ExprStr(as.Lhs[0])+" -= "+core.ExprStr(as.Rhs[0]), as.Lhs[0], as.Lhs[0], as.Rhs[0])
				}
			case token.ASSIGN, token.DEFINE:
				switch r := as.Rhs[0].(type) {
				case *ast.CallExpr:
					cal := core.Callee(info, r)
					if cal == nil || len(r.Args) != 2 {
						return true
					}
					sig := cal.Type().(*types.Signature)
					if sig.Params().Len() != 2 || sig.Results().Len() != 1 || !types.Identical(sig.Params().At(0).Type(), sig.Results().At(0).Type()) {
						return true
					}
					if _, isSl := sig.Params().At(0).Type().Underlying().(*types.Slice); !isSl {
						return true
					}
					if bt, ok := sig.Params().At(1).Type().Underlying().(*types.Basic); !ok || bt.Info()&types.IsInteger == 0 {
						return true
					}
					check(as.Pos(), core.ExprStr(as.Lhs[0])+" = "+cal.Name()+"("+core.ExprStr(r.Args[0])+", "+core.ExprStr(r.Args[1])+")", r.Args[0], as.Lhs[0], r.Args[1])
				case *ast.SliceExpr:
					if r.Low != nil && r.High == nil {
						_, a := refs(r.Low, counts)
						_, b := refs(r.Low, accum)
						if a || b {
							check(as.Pos(), core.ExprStr(as.Lhs[0])+" = "+core.ExprStr(r), r.X, as.Lhs[0], r.Low)
						}
					}
				}
			}
			return true
		})
	}
	c.R.Floor(rule, sites, 3)
}

func filepathBase(p string) string {
	if i := strings.LastIndexByte(p, '/'); i >= 0 {
		return p[i+1:]
	}
	return p
}
