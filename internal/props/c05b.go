package props

import (
	"fmt"
	"go/ast"
	"go/constant"
	"go/token"
	"go/types"
	"strings"

	"daecheck/internal/core"
	"daecheck/internal/fdt"

	"golang.org/x/tools/go/cfg"
)

// SHORTWRITE: in every read/write copy loop (nw, ew := dst.Write(buf[:nr])) the
// next refill of the buffer and every success return are reachable from the
// write only through the edge on which the write is known to be complete
// (!(nw < nr)); the short-write edge only returns errors. Otherwise the
// unwritten tail buf[nw:nr] is silently lost.
func c05ShortWrite(c *Ctx) {
	const rule = "SHORTWRITE"
	n := 0
	for _, rel := range []string{"control", "component/sniffing"} {
		for _, f := range units(c.P, rel, nil) {
			info := f.Info()
			g := f.Graph()
			for _, b := range g.CFG.Blocks {
				if !b.Live {
					continue
				}
				for i, nd := range b.Nodes {
					as, ok := nd.(*ast.AssignStmt)
					if !ok || len(as.Lhs) != 2 || len(as.Rhs) != 1 {
						continue
					}
					call, ok := as.Rhs[0].(*ast.CallExpr)
					if !ok || len(call.Args) != 1 {
						continue
					}
					_, name, isM := methodCall(call)
					if !isM || name != "Write" {
						continue
					}
					sl, ok := ast.Unparen(call.Args[0]).(*ast.SliceExpr)
					if !ok || sl.Low != nil || sl.High == nil {
						continue
					}
					nrId, ok1 := ast.Unparen(sl.High).(*ast.Ident)
					nwId, ok2 := as.Lhs[0].(*ast.Ident)
					if !ok1 || !ok2 || nwId.Name == "_" {
						continue
					}
					nr, nw := info.ObjectOf(nrId), info.ObjectOf(nwId)
					bufObj := core.RootObj(info, sl.X)
					n++
					c.R.Saw(f)
					isRefill := func(m ast.Node) bool {
						hit := false
						ownCalls(m, func(cl *ast.CallExpr, _ bool) {
							if _, nm, ok := methodCall(cl); ok && nm == "Read" && len(cl.Args) == 1 && core.RootObj(info, cl.Args[0]) == bufObj {
								hit = true
							}
						})
						if rs, ok := m.(*ast.ReturnStmt); ok {
							if len(rs.Results) == 0 {
								hit = true // naked return: success unless err was set; treated as a success exit
							} else if core.ExprStr(rs.Results[len(rs.Results)-1]) == "nil" {
								hit = true
							}
						}
						return hit
					}
					var hitNode ast.Node
					var trace []token.Pos
					w := &core.Walker{G: g,
						Visit: func(m ast.Node) core.Verdict {
							if hitNode != nil {
								return core.Stop
							}
							if isRefill(m) {
								return core.Hit
							}
							return core.Go
						},
						Edge: func(from *cfg.Block, si int) bool {
							cond, _, _, ok := g.Cond(from)
							if !ok {
								return true
							}
							for _, at := range core.Atoms(cond, si == 0) {
								be, ok := at.Cond.(*ast.BinaryExpr)
								if !ok {
									continue
								}
								x, xo := ast.Unparen(be.X).(*ast.Ident)
								y, yo := ast.Unparen(be.Y).(*ast.Ident)
								if !xo || !yo {
									continue
								}
								op := be.Op
								if info.ObjectOf(x) == nr && info.ObjectOf(y) == nw {
									// normalise to nw OP nr
									op = map[token.Token]token.Token{token.GTR: token.LSS, token.LSS: token.GTR, token.GEQ: token.LEQ, token.LEQ: token.GEQ, token.EQL: token.EQL, token.NEQ: token.NEQ}[op]
								} else if !(info.ObjectOf(x) == nw && info.ObjectOf(y) == nr) {
									continue
								}
								complete := false
								switch op {
								case token.LSS, token.NEQ: // nw < nr, nw != nr
									complete = !at.Polarity
								case token.GEQ, token.EQL: // nw >= nr, nw == nr
									complete = at.Polarity
								}
								if complete {
									return false // the write is known complete on this edge
								}
							}
							return true
						},
						OnHit: func(m ast.Node, tr []token.Pos) {
							if hitNode == nil {
								hitNode, trace = m, tr
							}
						}}
					w.Run(core.Point{B: b, I: i}.After())
					construct := "short-write-ends-relay@" + strings.TrimPrefix(f.Name, rel+".")
					if hitNode == nil {
						c.R.Checkf(rule, construct, c.pos(as.Pos()), true, "after %s the next refill of %s and every success return lie behind the edge on which %s == %s; the short-write edge only returns errors", core.ExprStr(as.Rhs[0]), core.ExprStr(sl.X), nwId.Name, nrId.Name)
					} else {
						c.R.Checkf(rule, construct, c.pos(hitNode.Pos()), false, "after %s at %s, %s is reached (lines %s) without the write having been tested complete (%s < %s): the unwritten tail of the buffer is dropped from the stream", core.ExprStr(as.Rhs[0]), c.pos(as.Pos()), c.pos(hitNode.Pos()), traceStr(c.P, trace), nwId.Name, nrId.Name)
					}
				}
			}
		}
	}
	c.R.Floor(rule, n, 3)
}

// ADVANCE: a loop-carried cursor (segment list, in-pipe byte count, slice) is
// advanced by the count of the I/O in the same iteration, never by a running
// total; a loop-invariant base is advanced by the running total, never by the
// last count.
func c05Advance(c *Ctx) {
	const rule = "ADVANCE"
	sites := 0
	for _, f := range c.P.FuncsIn("control") {
		if f.Decl == nil || !strings.HasPrefix(filepathBase(f.File()), "tcp_copy") {
			continue
		}
		info := f.Info()
		// counts: first result of a two-result call (integer, error)
		counts := map[types.Object]bool{}
		ast.Inspect(f.Body, func(m ast.Node) bool {
			as, ok := m.(*ast.AssignStmt)
			if !ok || len(as.Lhs) != 2 || len(as.Rhs) != 1 {
				return true
			}
			call, ok := as.Rhs[0].(*ast.CallExpr)
			if !ok {
				return true
			}
			tup, ok := info.TypeOf(call).(*types.Tuple)
			if !ok || tup.Len() != 2 {
				return true
			}
			if bt, ok := tup.At(0).Type().Underlying().(*types.Basic); !ok || bt.Info()&types.IsInteger == 0 {
				return true
			}
			if id, ok := as.Lhs[0].(*ast.Ident); ok && id.Name != "_" {
				counts[info.ObjectOf(id)] = true
			}
			return true
		})
		if len(counts) == 0 {
			continue
		}
		refs := func(e ast.Expr, set map[types.Object]bool) (types.Object, bool) {
			var hit types.Object
			ast.Inspect(e, func(m ast.Node) bool {
				if id, ok := m.(*ast.Ident); ok {
					if o := info.ObjectOf(id); o != nil && set[o] {
						hit = o
					}
				}
				return true
			})
			return hit, hit != nil
		}
		accum := map[types.Object]bool{}
		assignedInLoop := map[types.Object]bool{}
		ast.Inspect(f.Body, func(m ast.Node) bool {
			as, ok := m.(*ast.AssignStmt)
			if !ok {
				return true
			}
			for _, l := range as.Lhs {
				if o := core.RootObj(info, l); o != nil {
					assignedInLoop[o] = true
				}
			}
			if as.Tok == token.ADD_ASSIGN && len(as.Lhs) == 1 {
				if _, ok := refs(as.Rhs[0], counts); ok {
					if id, ok := as.Lhs[0].(*ast.Ident); ok {
						accum[info.ObjectOf(id)] = true
					}
				}
			}
			return true
		})
		check := func(pos token.Pos, what string, base ast.Expr, target ast.Expr, k ast.Expr) {
			sites++
			c.R.Saw(f)
			carried := target != nil && base != nil && core.RootObj(info, base) != nil && core.RootObj(info, base) == core.RootObj(info, target)
			construct := "advance-by-this-iterations-count@" + f.Name + "/" + nospace(what)
			acc, usesAcc := refs(k, accum)
			_, usesCnt := refs(k, counts)
			switch {
			case carried && usesAcc:
				c.R.Checkf(rule, construct, c.pos(pos), false, "%s advances the loop-carried cursor %s by the running total %s: after a second partial write the bytes already skipped are skipped again and stream bytes are lost", what, core.ExprStr(base), acc.Name())
			case !carried && base != nil && !assignedInLoop[core.RootObj(info, base)] && usesCnt && !usesAcc && target != nil:
				c.R.Checkf(rule, construct, c.pos(pos), false, "%s advances the loop-invariant base %s by the last write's count only: bytes written by earlier iterations are sent again", what, core.ExprStr(base))
			default:
				c.R.Checkf(rule, construct, c.pos(pos), true, "%s advances %s by the count returned by the I/O call of the same iteration", what, core.ExprStr(base))
			}
		}
		ast.Inspect(f.Body, func(m ast.Node) bool {
			as, ok := m.(*ast.AssignStmt)
			if !ok || len(as.Lhs) != 1 || len(as.Rhs) != 1 {
				return true
			}
			switch as.Tok {
			case token.SUB_ASSIGN:
				if _, ok := refs(as.Rhs[0], counts); ok {
					check(as.Pos(), core.ExprStr(as.Lhs[0])+" -= "+core.ExprStr(as.Rhs[0]), as.Lhs[0], as.Lhs[0], as.Rhs[0])
				} else if _, ok := refs(as.Rhs[0], accum); ok {
					check(as.Pos(), core.ExprStr(as.Lhs[0])+" -= "+core.ExprStr(as.Rhs[0]), as.Lhs[0], as.Lhs[0], as.Rhs[0])
				}
			case token.ASSIGN, token.DEFINE:
				switch r := as.Rhs[0].(type) {
				case *ast.CallExpr:
					cal := core.Callee(info, r)
					if cal == nil || len(r.Args) != 2 {
						return true
					}
					sig := cal.Type().(*types.Signature)
					if sig.Params().Len() != 2 || sig.Results().Len() != 1 || !types.Identical(sig.Params().At(0).Type(), sig.Results().At(0).Type()) {
						return true
					}
					if _, isSl := sig.Params().At(0).Type().Underlying().(*types.Slice); !isSl {
						return true
					}
					if bt, ok := sig.Params().At(1).Type().Underlying().(*types.Basic); !ok || bt.Info()&types.IsInteger == 0 {
						return true
					}
					check(as.Pos(), core.ExprStr(as.Lhs[0])+" = "+cal.Name()+"("+core.ExprStr(r.Args[0])+", "+core.ExprStr(r.Args[1])+")", r.Args[0], as.Lhs[0], r.Args[1])
				case *ast.SliceExpr:
					if r.Low != nil && r.High == nil {
						_, a := refs(r.Low, counts)
						_, b := refs(r.Low, accum)
						if a || b {
							check(as.Pos(), core.ExprStr(as.Lhs[0])+" = "+core.ExprStr(r), r.X, as.Lhs[0], r.Low)
						}
					}
				}
			}
			return true
		})
	}
	c.R.Floor(rule, sites, 3)
}

func filepathBase(p string) string {
	if i := strings.LastIndexByte(p, '/'); i >= 0 {
		return p[i+1:]
	}
	return p
}

// POOLCLEAN: a splice pipe goes back to the pool only on the edge where it
// holds no bytes; sends into the pool happen nowhere else.
func c05PoolClean(c *Ctx) {
	const rule = "POOLCLEAN"
	pk := c.P.Pkg("control")
	pool := pk.Types.Scope().Lookup("relaySplicePipePool")
	if pool == nil {
		c.R.Unresolved(rule, "control.relaySplicePipePool")
		return
	}
	n := 0
	for _, f := range units(c.P, "control", nil) {
		info := f.Info()
		g := f.Graph()
		for _, b := range g.CFG.Blocks {
			if !b.Live {
				continue
			}
			for i, nd := range b.Nodes {
				ss, ok := nd.(*ast.SendStmt)
				if !ok {
					continue
				}
				id, ok := ast.Unparen(ss.Chan).(*ast.Ident)
				if !ok || info.ObjectOf(id) != pool {
					continue
				}
				n++
				c.R.Saw(f)
				val := core.ExprStr(ss.Value)
				empty := false
				for _, gd := range g.Guards(core.Point{B: b, I: i}) {
					for _, at := range core.Atoms(gd.Cond, gd.Polarity) {
						be, ok := at.Cond.(*ast.BinaryExpr)
						if !ok || core.ExprStr(be.X) != val+".data" || core.ExprStr(be.Y) != "0" {
							continue
						}
						if (be.Op == token.NEQ && !at.Polarity) || (be.Op == token.EQL && at.Polarity) || (be.Op == token.GTR && !at.Polarity) {
							empty = true
						}
					}
				}
				c.R.Checkf(rule, "pooled-only-when-empty@"+f.Name, c.pos(ss.Pos()), empty, "the pipe %s is sent to the pool only on the edge where %s.data == 0; a pipe that still holds spliced bytes of an aborted relay would deliver them to the next connection that takes it", val, val)
			}
		}
	}
	c.R.Floor(rule, n, 1)
}

// DETECTEOF: the sniff prefetch treats "nothing arrived in the window" — a
// timeout or the client's FIN — as "not ready", never as an error that aborts
// the connection before the outbound dial.
func c05DetectEOF(c *Ctx) {
	const rule = "DETECTEOF"
	f := c.fn(rule, "control", "prefetchForTcpSniff")
	if f == nil {
		return
	}
	info := f.Info()
	var eofObj types.Object
	if iop := c.P.All["io"]; iop != nil {
		eofObj = iop.Types.Scope().Lookup("EOF")
	}
	var eofKeys, nilKeys, asKeys, toKeys, gotKeys []string
	ast.Inspect(f.Body, func(m ast.Node) bool {
		switch x := m.(type) {
		case *ast.CallExpr:
			if cal := core.Callee(info, x); cal != nil && cal.Pkg() != nil && cal.Pkg().Path() == "errors" && len(x.Args) == 2 {
				if cal.Name() == "Is" && usesObj(info, x.Args[1], eofObj) {
					eofKeys = append(eofKeys, core.ExprStr(x))
				}
				if cal.Name() == "As" {
					asKeys = append(asKeys, core.ExprStr(x))
				}
			}
			if _, name, ok := methodCall(x); ok && name == "Timeout" && len(x.Args) == 0 {
				toKeys = append(toKeys, core.ExprStr(x))
			}
		case *ast.BinaryExpr:
			if x.Op == token.EQL || x.Op == token.NEQ {
				if usesObj(info, x.Y, eofObj) {
					eofKeys = append(eofKeys, core.ExprStr(x))
				}
				if core.ExprStr(x.Y) == "nil" {
					if t := info.TypeOf(x.X); t != nil && types.Identical(t, types.Universe.Lookup("error").Type()) {
						nilKeys = append(nilKeys, core.ExprStr(x))
					}
				}
			}
			if x.Op == token.GTR && core.ExprStr(x.Y) == "0" {
				if bt, ok := info.TypeOf(x.X).Underlying().(*types.Basic); ok && bt.Kind() == types.Int {
					if id, ok := x.X.(*ast.Ident); ok && id.Name != "wait" && id.Name != "maxBytes" {
						gotKeys = append(gotKeys, core.ExprStr(x))
					}
				}
			}
		}
		return true
	})
	if len(eofKeys) == 0 && len(toKeys) == 0 {
		c.R.Unresolved(rule, "prefetchForTcpSniff: classification of the read error (io.EOF / Timeout())")
		return
	}
	row := func(name string, eof, timeout bool) {
		in := map[string]constant.Value{}
		for _, k := range eofKeys {
			v := eof
			if strings.Contains(k, "!=") {
				v = !eof
			}
			in[k] = constant.MakeBool(v)
		}
		for _, k := range nilKeys {
			in[k] = constant.MakeBool(strings.Contains(k, "!=")) // an error is present
		}
		for _, k := range asKeys {
			in[k] = constant.MakeBool(timeout)
		}
		for _, k := range toKeys {
			in[k] = constant.MakeBool(timeout)
		}
		for _, k := range gotKeys {
			in[k] = constant.MakeBool(false) // no byte arrived
		}
		job := &fdt.Job{F: f, Start: f.Graph().Entry(), Inputs: in}
		outs := job.Run()
		bad := ""
		for _, o := range outs {
			if o.Kind != "return" || len(o.Vals) == 0 {
				bad = "an exit that is not a return"
			} else if last := o.Vals[len(o.Vals)-1]; last != "sym:nil" {
				bad = "returns the error " + strings.TrimPrefix(last, "sym:") + " at " + c.pos(o.Pos)
			}
		}
		c.R.Checkf(rule, name+"-is-not-an-error@prefetchForTcpSniff", c.pos(f.Pos()), bad == "" && len(outs) > 0,
			"when no byte arrived and the read ended with %s every path returns a nil error (the connection continues to the outbound dial and relay)%s", name, func() string {
				if bad != "" {
					return " — VIOLATED: " + bad + ": handleConn aborts a healthy connection (e.g. a client that half-closes and waits for a server-first banner)"
				}
				return ""
			}())
	}
	row("client-EOF", true, false)
	row("window-timeout", false, true)
}

// BUFALIAS: bufioConn.TakeRelayPrefix hands out a slice that aliases the
// bufio.Reader's internal buffer, and the gather write reads the body through
// the same wrapper before it writes that prefix.  bufio.Reader.Read bypasses
// its buffer only for reads at least as large as the buffer, so the reader of
// every bufioConn must not be larger than the relay copy buffer.
func c05BufAlias(c *Ctx) {
	const rule = "BUFALIAS"
	tp := c.fn(rule, "control", "bufioConn.TakeRelayPrefix")
	gw := c.fn(rule, "control", "tryRelayGatherWrite")
	if tp == nil || gw == nil {
		return
	}
	// P1: the returned slice comes from Peek
	aliases := false
	ast.Inspect(tp.Body, func(m ast.Node) bool {
		if as, ok := m.(*ast.AssignStmt); ok && len(as.Rhs) == 1 {
			if call, ok := as.Rhs[0].(*ast.CallExpr); ok {
				if cal := core.Callee(tp.Info(), call); cal != nil && cal.Name() == "Peek" && cal.Pkg() != nil && cal.Pkg().Path() == "bufio" {
					aliases = true
				}
			}
		}
		return true
	})
	// P2: a read through the source can happen between taking the segments and writing them
	gi := gw.Info()
	gg := gw.Graph()
	take := nodeCalls(gi, "control.relayTakeSourceSegments")
	write := nodeCalls(gi, "control.relayGatherWriteTo")
	readSrc := func(n ast.Node) bool {
		hit := false
		ownCalls(n, func(call *ast.CallExpr, _ bool) {
			if _, name, ok := methodCall(call); ok && name == "Read" && len(call.Args) == 1 {
				hit = true
			}
		})
		return hit
	}
	readBeforeWrite := false
	for _, p := range gg.Find(take) {
		if _, _, r := gg.ReachesAvoiding(p.After(), write, readSrc); r {
			readBeforeWrite = true
		}
	}
	if !aliases || !readBeforeWrite {
		c.R.Checkf(rule, "prefix-alias-premise", c.pos(tp.Pos()), true, "no aliasing hazard: TakeRelayPrefix aliases the reader's buffer = %v, a body read precedes the prefix write = %v", aliases, readBeforeWrite)
		return
	}
	limit, okL := constInt(c, rule, "control", "relayCopyBufferSize")
	if !okL {
		return
	}
	n := 0
	for _, f := range c.P.FuncsIn("control") {
		info := f.Info()
		ast.Inspect(f.Body, func(m ast.Node) bool {
			cl, ok := m.(*ast.CompositeLit)
			if !ok {
				return true
			}
			if nm := namedOf(info.TypeOf(cl)); nm == nil || nm.Obj().Name() != "bufioConn" {
				return true
			}
			for _, el := range cl.Elts {
				kv, ok := el.(*ast.KeyValueExpr)
				if !ok || core.ExprStr(kv.Key) != "reader" {
					continue
				}
				n++
				c.R.Saw(f)
				size, how := int64(-1), "?"
				var ctor *ast.CallExpr
				switch v := ast.Unparen(kv.Value).(type) {
				case *ast.CallExpr:
					ctor = v
				case *ast.Ident:
					obj := info.ObjectOf(v)
					ast.Inspect(f.Body, func(k ast.Node) bool {
						if as, ok := k.(*ast.AssignStmt); ok && len(as.Lhs) == 1 && len(as.Rhs) == 1 {
							if id, ok := as.Lhs[0].(*ast.Ident); ok && info.ObjectOf(id) == obj {
								if call, ok := as.Rhs[0].(*ast.CallExpr); ok {
									ctor = call
								}
							}
						}
						return true
					})
				}
				if ctor != nil {
					if cal := core.Callee(info, ctor); cal != nil && cal.Pkg() != nil && cal.Pkg().Path() == "bufio" {
						switch cal.Name() {
						case "NewReader":
							size, how = 4096, "bufio.NewReader (4096)"
						case "NewReaderSize":
							if tv, ok := info.Types[ctor.Args[1]]; ok && tv.Value != nil {
								size, _ = constant.Int64Val(tv.Value)
								how = "bufio.NewReaderSize(" + core.ExprStr(ctor.Args[1]) + ")"
							}
						}
					}
				}
				ok2 := size > 0 && size <= limit
				c.R.Checkf(rule, "reader-not-larger-than-relay-buffer@"+f.Name, c.pos(cl.Pos()), ok2,
					"the bufio.Reader of this bufioConn is built by %s; TakeRelayPrefix hands out a slice of its internal buffer and tryRelayGatherWrite reads the body through the wrapper with a %d-byte buffer before writing that prefix — a reader larger than that (or of unknown size) takes the read into its own buffer and overwrites the pending prefix", how, limit)
			}
			return true
		})
	}
	c.R.Floor(rule, n, 1)
}

// usesObj: e is an identifier or qualified identifier denoting obj.
func usesObj(info *types.Info, e ast.Expr, obj types.Object) bool {
	if obj == nil {
		return false
	}
	switch x := ast.Unparen(e).(type) {
	case *ast.Ident:
		return info.Uses[x] == obj
	case *ast.SelectorExpr:
		return info.Uses[x.Sel] == obj
	}
	return false
}

// CAPABILITY: the relay discovers what a wrapper can do by asserting the
// capability interfaces of tcp_relay_capabilities.go (+ WriteCloser).  A type
// that declares a method with a capability's name but another signature is
// silently treated as not having the capability.  Every method named like a
// capability method must make its type implement that interface; and every
// client-side wrapper the relay can be handed implements WriteCloser, because
// the half-close is forwarded by asserting dst.(WriteCloser).
func c05Capability(c *Ctx) {
	const rule = "CAPABILITY"
	ctl := c.P.Pkg("control")
	type capI struct {
		name  string
		iface *types.Interface
	}
	var caps []capI
	for _, nm := range []string{"relaySegmentSource", "relayContinuationSource", "relayPrefixSource", "WriteCloser"} {
		if it := lookupIface(ctl.Types, nm); it != nil {
			caps = append(caps, capI{nm, it})
		} else {
			c.R.Unresolved(rule, "control."+nm)
		}
	}
	n := 0
	var wrappers []*types.TypeName
	for _, rel := range []string{"control", "component/sniffing"} {
		pk := c.P.Pkg(rel)
		for _, name := range pk.Types.Scope().Names() {
			tn, ok := pk.Types.Scope().Lookup(name).(*types.TypeName)
			if !ok || tn.IsAlias() {
				continue
			}
			if _, isStruct := tn.Type().Underlying().(*types.Struct); !isStruct {
				continue
			}
			if pos := c.P.Fset.Position(tn.Pos()); strings.HasSuffix(pos.Filename, "_test.go") {
				continue
			}
			ptr := types.NewPointer(tn.Type())
			ms := types.NewMethodSet(ptr)
			for _, cp := range caps {
				for i := 0; i < cp.iface.NumMethods(); i++ {
					m := cp.iface.Method(i)
					if cp.name == "WriteCloser" {
						continue // CloseWrite is checked for the wrappers below
					}
					sel := ms.Lookup(tn.Pkg(), m.Name())
					if sel == nil {
						continue
					}
					n++
					ok := types.Implements(ptr, cp.iface)
					c.R.Checkf(rule, "method-named-like-a-capability-has-its-signature@"+rel+"."+name+"."+m.Name(), c.pos(sel.Obj().Pos()), ok,
						"%s.%s declares %s; the relay only uses it if *%s implements control.%s (%s) — with another signature the assertion fails silently and the relay falls back to plain Read, which for the sniffer replays the stored sniff-window error and cuts the connection", rel, name, sel.Obj().Type().String(), name, cp.name, m.Type().String())
				}
			}
			// a relay wrapper: hands out buffered bytes and wraps a connection
			if ms.Lookup(tn.Pkg(), "TakeRelayPrefix") != nil {
				wrappers = append(wrappers, tn)
			}
		}
	}
	c.R.Floor(rule+"/capability-methods", n, 8)
	var wc *types.Interface
	for _, cp := range caps {
		if cp.name == "WriteCloser" {
			wc = cp.iface
		}
	}
	if wc != nil {
		for _, tn := range wrappers {
			ok := types.Implements(types.NewPointer(tn.Type()), wc)
			c.R.Checkf(rule, "client-side-wrapper-forwards-CloseWrite@"+tn.Pkg().Name()+"."+tn.Name(), c.pos(tn.Pos()), ok,
				"*%s can be the relay's left (client) connection; the relay forwards the upstream's end of stream with dst.(WriteCloser).CloseWrite() — a wrapper without CloseWrite swallows the half-close and the client sees EOF only when the grace period force-closes both sides", tn.Name())
		}
		c.R.Floor(rule+"/wrappers", len(wrappers), 3)
	}
}

// CONSUME: once the port-53 detection read has consumed a frame from the
// client stream, the connection can no longer be handed to the plain relay:
// every return of handleTCPDnsFastPath after a successful read reports
// handled=true.
func c05Consume(c *Ctx) {
	const rule = "CONSUME"
	f := c.fn(rule, "control", "ControlPlane.handleTCPDnsFastPath")
	if f == nil {
		return
	}
	info := f.Info()
	g := f.Graph()
	read := nodeCalls(info, "control.readDnsMsgFromBufio")
	pts := g.Find(read)
	if len(pts) == 0 {
		c.R.Unresolved(rule, "handleTCPDnsFastPath: readDnsMsgFromBufio call")
		return
	}
	n := 0
	for _, p := range pts {
		// success edge of the read: the false edge of the following `err != nil`
		cond, _, fl, ok := g.Cond(p.B)
		if !ok || !strings.Contains(core.ExprStr(cond), "err != nil") {
			c.R.Checkf(rule, "read-result-tested@"+c.pos(p.Node().Pos()), c.pos(p.Node().Pos()), false, "the result of readDnsMsgFromBufio is not tested right after the call")
			continue
		}
		n++
		var hit ast.Node
		var trace []token.Pos
		w := &core.Walker{G: g,
			Visit: func(nd ast.Node) core.Verdict {
				if hit != nil || read(nd) {
					return core.Stop
				}
				if rs, ok := nd.(*ast.ReturnStmt); ok && len(rs.Results) >= 1 && core.ExprStr(rs.Results[0]) == "false" {
					return core.Hit
				}
				return core.Go
			},
			OnHit: func(nd ast.Node, tr []token.Pos) {
				if hit == nil {
					hit, trace = nd, tr
				}
			}}
		w.Run(core.Point{B: fl, I: 0})
		construct := fmt.Sprintf("consumed-frame-is-never-handed-to-the-relay#%d", n)
		if hit == nil {
			c.R.Checkf(rule, construct, c.pos(p.Node().Pos()), true, "after this detection read succeeded (its frame was discarded from the buffered stream) every return reports handled=true")
		} else {
			c.R.Checkf(rule, construct, c.pos(hit.Pos()), false, "after the detection read at %s succeeded — the frame has been Discard()ed from the client stream — %s returns handled=false (lines %s): handleConn then relays the connection without that frame (port 53, bytes that parse as a DNS message but are not a query)", c.pos(p.Node().Pos()), c.pos(hit.Pos()), traceStr(c.P, trace))
		}
	}
	c.R.Floor(rule, n, 2)
	// and the reader only consumes what it accepts: Discard is dominated by the query test if the reader classifies
}
