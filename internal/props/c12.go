package props

import (
	"fmt"
	"go/ast"
	"go/constant"
	"go/token"
	"go/types"
	"strings"

	"daecheck/internal/core"
	"daecheck/internal/fdt"

	"golang.org/x/tools/go/cfg"
)

func init() {
	register(&Checker{ID: "C12", Run: runC12, Explain: "Structural necessary conditions of CIDR containment and userspace/kernel key agreement, decided from the type-checked source (stub build and the real-build variant of package control): " +
		"(1) PREFIXLEN: the number of key bits trie.Prefix2bin128 emits and the PrefixLen cidrToBpfLpmKey writes are both functions of (prefix length, is-IPv4) only; both are propagated for every prefix length 0..128 / 0..32 and must equal bits + 96·[IPv4], including length 0; " +
		"(2) MAPPED: every probe key is built from the 16-byte (IPv4-mapped) form with length 128, in the routing matcher and the DNS response matcher; (3) SHARE: an existing LPM set is reused only under prefixesEqual, canonicalisation precedes hashing, the two IP emitters are structurally identical, the MAC emitter never shares; prefixesEqual compares length and every element; " +
		"(4) WALK: the trie's prefix walk tests the leaf flag at every visited node before descending and again at the end; (5) ERR: trie construction errors are returned by every build path. " +
		"(6) HOSTLEN: parsePrefixes, folded over one literal of every class its substring tests can distinguish, gives a bare IPv6 literal (also with a dotted tail) /128, a bare IPv4 literal /32 and leaves explicit lengths alone. " +
		"Not decided: trie construction/traversal on concrete values (rank/select arithmetic), kernel LPM semantics."})
}

func runC12(c *Ctx) {
	c12PrefixLen(c)
	c12Mapped(c)
	c12Share(c)
	c12Walk(c)
	c12Err(c)
	c12HostLen(c)
	c12TrieKeys(c)
	c12IndexIsAppendPosition(c)
	c01Dual(c)
	scanIsStateless(c, "WALK", "control", "RoutingMatcher.Match", []string{"goodSubrule", "badRule", "must"})
}

func c12PrefixLen(c *Ctx) {
	const rule = "PREFIXLEN"
	type variant struct {
		is4  bool
		maxB int64
	}
	vars := []variant{{false, 128}, {true, 32}}
	// --- userspace key length: count WriteByte calls
	if f := c.fn(rule, "pkg/trie", "Prefix2bin128"); f != nil {
		info := f.Info()
		rows, bad := 0, 0
		first := ""
		for _, v := range vars {
			for bits := int64(0); bits <= v.maxB; bits++ {
				job := &fdt.Job{F: f, Start: f.Graph().Entry(), MaxSteps: 20000,
					Inputs: map[string]constant.Value{"prefix.Bits()": constant.MakeInt64(bits), "prefix.Addr().Is4()": constant.MakeBool(v.is4)},
					Event: func(n ast.Node, ev func(ast.Expr) string) string {
						hit := ""
						ownCalls(n, func(call *ast.CallExpr, def bool) {
							if cal := core.Callee(info, call); cal != nil && cal.Name() == "WriteByte" && !def {
								hit = "#bits"
							}
						})
						return hit
					}}
				outs := job.Run()
				rows++
				want := bits
				if v.is4 {
					want += 96
				}
				got := []string{}
				ok := len(outs) > 0 && len(job.Undecided) == 0
				for _, o := range outs {
					if o.Kind != "return" {
						continue
					}
					n := o.State["#bits"]
					if n == "" {
						n = "0"
					}
					got = append(got, n)
					if n != fmt.Sprint(want) {
						ok = false
					}
				}
				if !ok {
					bad++
					if first == "" {
						first = fmt.Sprintf("for a /%d %s prefix the key has %v bit(s), want %d%s", bits, map[bool]string{true: "IPv4", false: "IPv6"}[v.is4], got, want, func() string {
							if len(job.Undecided) > 0 {
								return " (undecided: " + strings.Join(job.Undecided, "; ") + ")"
							}
							return ""
						}())
					}
				}
			}
		}
		c.R.Checkf(rule, "userspace-key-length@Prefix2bin128", c.pos(f.Pos()), bad == 0, "trie key length = prefix length + 96·[IPv4] for all %d (length, family) pairs, exhaustive%s", rows, func() string {
			if bad == 0 {
				return ""
			}
			return fmt.Sprintf(" — %d pair(s) differ; first: %s (a shorter/longer key changes which addresses the set contains; the kernel key uses the exact length)", bad, first)
		}())
		c.R.Floor(rule+"/userspace-rows", rows, 162)
	}
	// --- kernel key length (real build)
	rp := c.Real(rule)
	if rp == nil {
		return
	}
	f := rp.Func("control", "cidrToBpfLpmKey")
	if f == nil {
		c.R.Unresolved(rule, "control.cidrToBpfLpmKey (real build)")
		return
	}
	c.R.Saw(f)
	rows, bad := 0, 0
	first := ""
	for _, v := range vars {
		for bits := int64(0); bits <= v.maxB; bits++ {
			job := &fdt.Job{F: f, Start: f.Graph().Entry(),
				Inputs: map[string]constant.Value{"prefix.Bits()": constant.MakeInt64(bits), "prefix.Addr().Is4()": constant.MakeBool(v.is4)},
				Event: func(n ast.Node, ev func(ast.Expr) string) string {
					rs, ok := n.(*ast.ReturnStmt)
					if !ok || len(rs.Results) != 1 {
						return ""
					}
					out := ""
					ast.Inspect(rs.Results[0], func(m ast.Node) bool {
						if kv, ok := m.(*ast.KeyValueExpr); ok && core.ExprStr(kv.Key) == "PrefixLen" {
							out = "PrefixLen=" + ev(kv.Value)
						}
						return true
					})
					return out
				}}
			outs := job.Run()
			rows++
			want := bits
			if v.is4 {
				want += 96
			}
			ok := len(outs) == 1 && len(outs[0].Events) == 1 && outs[0].Events[0] == fmt.Sprintf("PrefixLen=%d", want)
			if !ok {
				bad++
				if first == "" {
					first = fmt.Sprintf("/%d is4=%v gives %v, want PrefixLen=%d", bits, v.is4, fdt.Table(outs), want)
				}
			}
		}
	}
	c.R.Checkf(rule, "kernel-key-length@cidrToBpfLpmKey", rp.Pos(f.Pos()), bad == 0, "LPM key PrefixLen = prefix length + 96·[IPv4] for all %d pairs (real build)%s", rows, func() string {
		if bad == 0 {
			return ""
		}
		return " — first difference: " + first
	}())
	c.R.Floor(rule+"/kernel-rows", rows, 162)
	// data bytes come from the 16-byte form
	okData := false
	ast.Inspect(f.Body, func(m ast.Node) bool {
		if kv, ok := m.(*ast.KeyValueExpr); ok && core.ExprStr(kv.Key) == "Data" && strings.Contains(core.ExprStr(kv.Value), "Ipv6ByteSliceToUint32Array(ip[:])") {
			okData = true
		}
		return true
	})
	as16 := false
	ast.Inspect(f.Body, func(m ast.Node) bool {
		if as, ok := m.(*ast.AssignStmt); ok && len(as.Rhs) == 1 && core.ExprStr(as.Lhs[0]) == "ip" && strings.HasSuffix(core.ExprStr(as.Rhs[0]), ".As16()") {
			as16 = true
		}
		return true
	})
	c.R.Checkf(rule, "kernel-key-bytes-mapped", rp.Pos(f.Pos()), okData && as16, "the LPM key's address bytes are the 16-byte (IPv4-mapped) form")
}

func c12Mapped(c *Ctx) {
	const rule = "MAPPED"
	n := 0
	for _, site := range [][2]string{{"control", "RoutingMatcher.Match"}, {"component/dns", "ResponseMatcher.Match"}} {
		f := c.fn(rule, site[0], site[1])
		if f == nil {
			continue
		}
		for _, call := range f.FindCalls(core.ParseRefs("pkg/trie.Prefix2bin128")) {
			n++
			ok := false
			if pf, isC := call.Args[0].(*ast.CallExpr); isC && len(pf.Args) == 2 {
				cal := core.Callee(f.Info(), pf)
				if cal != nil && cal.Name() == "PrefixFrom" && core.ExprStr(pf.Args[1]) == "128" {
					if a16, isC := pf.Args[0].(*ast.CallExpr); isC {
						if c2 := core.Callee(f.Info(), a16); c2 != nil && c2.Name() == "AddrFrom16" {
							ok = true
						}
					}
				}
			}
			c.R.Checkf(rule, "probe-key@"+site[1], c.pos(call.Pos()), ok, "probe key is Prefix2bin128(PrefixFrom(AddrFrom16(<16 bytes>), 128)): %s", core.ExprStr(call.Args[0]))
		}
	}
	c.R.Floor(rule+"/probe-sites", n, 4)
	// callers converge to the 16-byte form before Match: Route passes As16 of both addresses
	if f := c.fn(rule, "control", "ControlPlane.Route"); f != nil {
		ok := 0
		for _, call := range f.FindCalls(core.ParseRefs("control.RoutingMatcher.Match")) {
			for _, a := range call.Args[:2] {
				if strings.HasSuffix(core.ExprStr(a), ".As16()") || f.Info().TypeOf(a).String() == "[16]uint8" || f.Info().TypeOf(a).String() == "[16]byte" {
					ok++
				}
			}
		}
		c.R.Checkf(rule, "route-passes-16-byte-addresses", c.pos(f.Pos()), ok >= 2, "Route hands Match both addresses as 16-byte arrays")
	}
}

func c12Share(c *Ctx) {
	const rule = "SHARE"
	var norm []string
	for _, nm := range []string{"addIp", "addSourceIp"} {
		f := c.fn(rule, "control", "RoutingMatcherBuilder."+nm)
		if f == nil {
			continue
		}
		// the unit that holds the dedup logic: the emitter itself, or the one helper it delegates the interning to
		emitter := f
		canonInCaller := false
		if len(f.FindCalls(core.ParseRefs("control.hashLpmSet"))) == 0 {
			var helper *core.Func
			var hcall *ast.CallExpr
			core.EachCall(f.Body, core.Deep, func(call *ast.CallExpr) {
				if cal := core.Callee(f.Info(), call); cal != nil {
					if h := c.P.FuncOfObj(cal); h != nil && len(h.FindCalls(core.ParseRefs("control.hashLpmSet"))) > 0 && helper == nil {
						helper, hcall = h, call
					}
				}
			})
			if helper != nil {
				// canonicalisation may stay in the emitter: then it must dominate the delegation
				if _, _, byp := f.Graph().ReachesAvoiding(f.Graph().Entry(), nodeCalls(f.Info(), "control.canonicalizePrefixes"), func(n ast.Node) bool {
					r := false
					ownCalls(n, func(cl *ast.CallExpr, _ bool) {
						if cl == hcall {
							r = true
						}
					})
					return r
				}); !byp && len(f.FindCalls(core.ParseRefs("control.canonicalizePrefixes"))) > 0 {
					canonInCaller = true
				}
				f = helper
			}
		}
		info := f.Info()
		g := f.Graph()
		reuse := func(n ast.Node) bool {
			as, ok := n.(*ast.AssignStmt)
			if ok && len(as.Rhs) == 1 && strings.HasSuffix(core.ExprStr(as.Rhs[0]), ".index") && core.FieldOf(info, as.Rhs[0]) == "lpmDedupEntry.index" {
				return true
			}
			// in a helper the index may be returned directly
			if rs, isR := n.(*ast.ReturnStmt); isR && f != emitter {
				for _, r := range rs.Results {
					if core.FieldOf(info, r) == "lpmDedupEntry.index" {
						return true
					}
				}
			}
			return false
		}
		pts := g.Find(reuse)
		okAll := len(pts) >= 1
		for _, p := range pts {
			guarded := false
			for _, gd := range g.Guards(p) {
				if call, ok := gd.Cond.(*ast.CallExpr); ok && gd.Polarity {
					if cal := core.Callee(info, call); cal != nil && cal.Name() == "prefixesEqual" && len(call.Args) == 2 &&
						core.FieldOf(info, call.Args[0]) == "lpmDedupEntry.prefixes" && (core.ExprStr(call.Args[1]) == "values" || isParamExpr(f, info, call.Args[1])) {
						guarded = true
					}
				}
			}
			if !guarded {
				okAll = false
			}
		}
		c.R.Checkf(rule, "reuse-only-when-equal@"+nm, c.pos(f.Pos()), okAll, "%s reuses an existing LPM set index only on the true edge of prefixesEqual(entry.prefixes, values) (%d reuse site(s)); equal hash or equal length alone may hide two different sets behind one index", nm, len(pts))
		if canonInCaller {
			c.R.Checkf(rule, "canonicalize-before-hash@"+nm, c.pos(emitter.Pos()), true, "canonicalizePrefixes dominates the delegation to %s, which hashes the set", f.Name)
		} else {
			c.dominated(rule, "canonicalize-before-hash@"+nm, f, nodeCalls(info, "control.hashLpmSet"), nodeCalls(info, "control.canonicalizePrefixes"), "hashLpmSet", "canonicalizePrefixes")
		}
		f = emitter
		// every path that does not reuse appends a new set and records it under the hash
		src := core.ExprStr2(f.Body)
		_ = src
		var sb strings.Builder
		for _, st := range f.Body.List {
			sb.WriteString(core.ExprStr2(st))
		}
		// structural normal form: the printed body with the match-type constant abstracted
		full := printNode(f.Body)
		full = strings.ReplaceAll(full, "MatchType_SourceIpSet", "MatchType_X")
		full = strings.ReplaceAll(full, "MatchType_IpSet", "MatchType_X")
		norm = append(norm, full)
	}
	if len(norm) == 2 {
		c.R.Checkf(rule, "ip-emitters-identical", "control/routing_matcher_builder.go", norm[0] == norm[1], "addIp and addSourceIp are identical up to the match-type constant (sibling agreement)%s", func() string {
			if norm[0] == norm[1] {
				return ""
			}
			return " — first differing line: " + firstDiffLine(norm[0], norm[1])
		}())
	}
	if f := c.fn(rule, "control", "RoutingMatcherBuilder.addSourceMac"); f != nil {
		uses := false
		ast.Inspect(f.Body, func(m ast.Node) bool {
			if se, ok := m.(*ast.SelectorExpr); ok && se.Sel.Name == "lpmDedup" {
				uses = true
			}
			return true
		})
		c.R.Checkf(rule, "mac-sets-never-shared", c.pos(f.Pos()), !uses, "addSourceMac always allocates its own set (it adds the zero MAC for negated rules, so its content differs from the written values)")
	}
	if f := c.fn(rule, "control", "prefixesEqual"); f != nil {
		g := f.Graph()
		lenT, elemT := false, false
		for _, cs := range g.Conds(func(e ast.Expr) bool { return true }) {
			be, ok := cs.Cond.(*ast.BinaryExpr)
			if !ok || be.Op != token.NEQ {
				continue
			}
			retFalse, _ := onlyReturns(g, core.Point{B: cs.True, I: 0}, "false")
			x, y := core.ExprStr(be.X), core.ExprStr(be.Y)
			if x > y {
				x, y = y, x
			}
			if retFalse && x == "len(a)" && y == "len(b)" {
				lenT = true
			}
			if retFalse && x == "a[i]" && y == "b[i]" {
				elemT = true
			}
		}
		// equivalent: the whole body is `return slices.Equal(a, b)` on the two parameters (netip.Prefix is comparable: equality of all bits)
		if !(lenT && elemT) && len(f.Body.List) == 1 {
			if rs, ok := f.Body.List[0].(*ast.ReturnStmt); ok && len(rs.Results) == 1 {
				if call, ok := ast.Unparen(rs.Results[0]).(*ast.CallExpr); ok && len(call.Args) == 2 {
					if cal := core.Callee(f.Info(), call); cal != nil && cal.Pkg() != nil && cal.Pkg().Path() == "slices" && cal.Name() == "Equal" {
						_, pa := paramIndex(f, core.RootObj(f.Info(), call.Args[0]))
						_, pb := paramIndex(f, core.RootObj(f.Info(), call.Args[1]))
						if pa && pb && core.ExprStr(call.Args[0]) != core.ExprStr(call.Args[1]) {
							lenT, elemT = true, true
						}
					}
				}
			}
		}
		c.R.Checkf(rule, "prefixesEqual-compares-all", c.pos(f.Pos()), lenT && elemT, "prefixesEqual returns false on a length difference and on any element difference")
	}
}

func printNode(n ast.Node) string {
	var sb strings.Builder
	ast.Inspect(n, func(m ast.Node) bool { return true })
	sb.WriteString(core.FullStr(n))
	return sb.String()
}

func firstDiffLine(a, b string) string {
	la, lb := strings.Split(a, "\n"), strings.Split(b, "\n")
	for i := 0; i < len(la) && i < len(lb); i++ {
		if la[i] != lb[i] {
			return strings.TrimSpace(la[i]) + "  <>  " + strings.TrimSpace(lb[i])
		}
	}
	return "(length)"
}

func c12Walk(c *Ctx) {
	const rule = "WALK"
	f := c.fn(rule, "pkg/trie", "Trie.HasPrefix")
	if f == nil {
		return
	}
	info := f.Info()
	g := f.Graph()
	var loop *ast.ForStmt
	for _, st := range f.Body.List {
		if fs, ok := st.(*ast.ForStmt); ok && loop == nil {
			loop = fs
		}
	}
	if loop == nil {
		c.R.Unresolved(rule, "Trie.HasPrefix: walk loop")
		return
	}
	var body *cfg.Block
	heads := map[*cfg.Block]bool{}
	for _, b := range g.CFG.Blocks {
		if b.Stmt == ast.Stmt(loop) {
			switch b.Kind {
			case cfg.KindForBody:
				body = b
			case cfg.KindForPost, cfg.KindForLoop:
				heads[b] = true
			}
		}
	}
	isLeafTest := func(n ast.Node) bool {
		e, ok := n.(ast.Expr)
		if !ok {
			return false
		}
		found := false
		ast.Inspect(e, func(m ast.Node) bool {
			if call, ok := m.(*ast.CallExpr); ok && len(call.Args) == 2 {
				if cal := core.Callee(info, call); cal != nil && cal.Name() == "getBit" && core.FieldOf(info, call.Args[0]) == "Trie.leaves" {
					found = true
				}
			}
			return true
		})
		return found
	}
	if body == nil {
		c.R.Unresolved(rule, "Trie.HasPrefix: loop body block")
		return
	}
	pos, tr, bad := reachesHeadAvoiding(g, core.Point{B: body, I: 0}, heads, isLeafTest)
	// and the leaf test's hit edge returns true
	hitOK := false
	for _, cs := range g.Conds(func(e ast.Expr) bool { return isLeafTest(e) }) {
		if good, _ := onlyReturns(g, core.Point{B: cs.True, I: 0}, "true"); good {
			hitOK = true
		}
	}
	c.R.Checkf(rule, "leaf-tested-at-every-node@HasPrefix", c.pos(loop.Pos()), !bad && hitOK, "every iteration of the prefix walk tests the leaf flag of the node it is at (returning true on a hit) before descending to the next level%s", func() string {
		if bad {
			return " — the path lines " + traceStr(c.P, tr) + " reaches the next iteration at " + c.pos(pos) + " without the test: a shorter prefix that ends at an inner node (e.g. 10.0.0.0/8 next to 10.1.0.0/16) is then missed"
		}
		return ""
	}())
	// final test after the loop
	final := false
	if rs, ok := f.Body.List[len(f.Body.List)-1].(*ast.ReturnStmt); ok && len(rs.Results) == 1 && isLeafTest(rs.Results[0]) {
		final = true
	}
	c.R.Checkf(rule, "leaf-tested-at-end@HasPrefix", c.pos(f.Pos()), final, "after consuming the whole word the result is the leaf flag of the final node")
}

func c12Err(c *Ctx) {
	const rule = "ERR"
	n := 0
	for _, site := range [][2]string{{"control", "RoutingMatcherBuilder.BuildUserspace"}, {"component/dns", "ResponseMatcherBuilder.Build"}} {
		f := c.fn(rule, site[0], site[1])
		if f == nil {
			continue
		}
		for _, u := range append([]*core.Func{f}, litUnits(f)...) {
			info := u.Info()
			g := u.Graph()
			for _, p := range g.Find(nodeCalls(info, "pkg/trie.NewTrieFromPrefixes")) {
				as, ok := p.Node().(*ast.AssignStmt)
				if !ok || len(as.Lhs) != 2 {
					continue
				}
				n++
				errId, _ := as.Lhs[1].(*ast.Ident)
				used := false
				if errId != nil {
					obj := info.ObjectOf(errId)
					ast.Inspect(u.Body, func(m ast.Node) bool {
						if id, ok := m.(*ast.Ident); ok && id != errId && info.ObjectOf(id) == obj {
							used = true
						}
						return true
					})
					if _, isVar := obj.(*types.Var); !isVar {
						used = false
					}
				}
				c.R.Checkf(rule, "trie-error-used@"+site[1], c.pos(as.Pos()), errId != nil && errId.Name != "_" && used, "the error of NewTrieFromPrefixes is bound to %s and consulted", core.ExprStr(as.Lhs[1]))
			}
		}
	}
	c.R.Floor(rule+"/sites", n, 2)
}


func isParamExpr(f *core.Func, info *types.Info, e ast.Expr) bool {
	id, ok := ast.Unparen(e).(*ast.Ident)
	if !ok {
		return false
	}
	_, isP := paramIndex(f, info.ObjectOf(id))
	return isP
}
