package props

import (
	"go/ast"
	"go/token"
	"go/types"
	"path/filepath"
	"strings"

	"daecheck/internal/core"
)

// units returns every function body of the package files selected by keep:
// declared functions and, separately, every function literal (each literal
// has its own CFG).
func units(p *core.Prog, rel string, keep func(file string) bool) []*core.Func {
	var out []*core.Func
	for _, f := range p.FuncsIn(rel) {
		if keep != nil && !keep(filepath.Base(f.File())) {
			continue
		}
		out = append(out, f)
		out = append(out, litUnits(f)...)
	}
	return out
}

func litUnits(f *core.Func) []*core.Func {
	var out []*core.Func
	n := 0
	ast.Inspect(f.Body, func(m ast.Node) bool {
		if lit, ok := m.(*ast.FuncLit); ok {
			n++
			out = append(out, f.LitFunc(lit, "lit"+itoa(n)+"@"+lineOf(f.Prog, lit)))
		}
		return true
	})
	return out
}

func itoa(n int) string {
	if n == 0 {
		return "0"
	}
	s := ""
	for n > 0 {
		s = string(rune('0'+n%10)) + s
		n /= 10
	}
	return s
}

func lineOf(p *core.Prog, n ast.Node) string {
	return itoa(p.Fset.Position(n.Pos()).Line)
}

// ownCalls visits calls evaluated by node n in the current unit: literal
// bodies are other units and are skipped; `defer f(...)`/`defer func(){}()`
// are reported through deferFn (their effect happens at exit).
func ownCalls(n ast.Node, fn func(c *ast.CallExpr, deferred bool)) {
	var walk func(n ast.Node, deferred bool)
	walk = func(n ast.Node, deferred bool) {
		ast.Inspect(n, func(m ast.Node) bool {
			switch x := m.(type) {
			case *ast.FuncLit:
				return false
			case *ast.DeferStmt:
				if lit, ok := x.Call.Fun.(*ast.FuncLit); ok {
					walk(lit.Body, true)
					return false
				}
				fn(x.Call, true)
				for _, a := range x.Call.Args {
					walk(a, deferred)
				}
				return false
			case *ast.GoStmt:
				for _, a := range x.Call.Args {
					walk(a, deferred)
				}
				return false
			case *ast.CallExpr:
				fn(x, deferred)
			}
			return true
		})
	}
	walk(n, false)
}

func isZeroTimeLit(info *types.Info, e ast.Expr) bool {
	cl, ok := ast.Unparen(e).(*ast.CompositeLit)
	if !ok || len(cl.Elts) != 0 {
		return false
	}
	t := info.TypeOf(cl)
	if t == nil {
		return false
	}
	n, ok := t.(*types.Named)
	return ok && n.Obj().Pkg() != nil && n.Obj().Pkg().Path() == "time" && n.Obj().Name() == "Time"
}

func methodCall(c *ast.CallExpr) (recv ast.Expr, name string, ok bool) {
	se, isSel := ast.Unparen(c.Fun).(*ast.SelectorExpr)
	if !isSel {
		return nil, "", false
	}
	return se.X, se.Sel.Name, true
}

func isDeadlineSetter(name string) bool {
	return name == "SetReadDeadline" || name == "SetWriteDeadline" || name == "SetDeadline"
}

func hasPrefixAny(s string, pre ...string) bool {
	for _, p := range pre {
		if strings.HasPrefix(s, p) {
			return true
		}
	}
	return false
}

// absentEdge reports whether taking the pol-edge of cond entails that some
// operand is absent (a non-error value is nil) or an error is present: the
// two reasons for which an operation may legitimately be skipped.
func absentEdge(info *types.Info, cond ast.Expr, pol bool) bool {
	cond = ast.Unparen(cond)
	switch x := cond.(type) {
	case *ast.UnaryExpr:
		if x.Op == token.NOT {
			return absentEdge(info, x.X, !pol)
		}
	case *ast.BinaryExpr:
		switch x.Op {
		case token.LOR:
			if pol {
				return absentEdge(info, x.X, true) && absentEdge(info, x.Y, true)
			}
			return absentEdge(info, x.X, false) || absentEdge(info, x.Y, false)
		case token.LAND:
			if pol {
				return absentEdge(info, x.X, true) || absentEdge(info, x.Y, true)
			}
			return absentEdge(info, x.X, false) && absentEdge(info, x.Y, false)
		case token.EQL, token.NEQ:
			if core.ExprStr(x.Y) != "nil" {
				return false
			}
			isNil := (x.Op == token.EQL) == pol // on this edge X is nil
			if t := info.TypeOf(x.X); t != nil && types.Identical(t, types.Universe.Lookup("error").Type()) {
				return !isNil // an error is present
			}
			return isNil
		}
	}
	return false
}
