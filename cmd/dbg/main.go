package main

import (
	"fmt"
	"go/ast"

	"daecheck/internal/core"
)

func main() {
	p, err := core.Load(core.LoadOpts{Repo: "/repo", Tags: "dae_stub_ebpf", Variant: "stub"})
	if err != nil {
		panic(err)
	}
	f := p.Func("component/dns", "Dns.ResponseSelect")
	g := f.Graph()
	for _, cs := range g.Conds(func(e ast.Expr) bool { return core.ExprStr(e) == "!ok" }) {
		fmt.Println(p.Pos(cs.Cond.Pos()), len(cs.True.Nodes))
		for _, n := range cs.True.Nodes {
			fmt.Printf("  %T %s\n", n, core.ExprStr2(n))
			if as, ok := n.(*ast.AssignStmt); ok {
				tv := f.Info().Types[as.Rhs[0]]
				fmt.Println("   val", tv.Value)
			}
		}
	}
}
