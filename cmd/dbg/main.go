package main

import (
	"daecheck/internal/core"
	"fmt"
)

func main() {
	p, err := core.Load(core.LoadOpts{Repo: "/repo", Tags: "dae_stub_ebpf", Variant: "stub"})
	if err != nil {
		panic(err)
	}
	f := p.Func("config", "StringListParser")
	fmt.Println(f.Graph().CFG.Format(p.Fset))
}
