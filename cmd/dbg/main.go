package main

import (
	"fmt"

	"daecheck/internal/core"
	"daecheck/internal/props"
)

func main() {
	p, err := core.Load(core.LoadOpts{Repo: "/repo", Variant: "stub", Tags: "dae_stub_ebpf"})
	fmt.Println(err)
	if p != nil {
		props.DebugNarrow(p)
	}
}
