package main

import (
	"fmt"
	"go/ast"
	"strings"

	"daecheck/internal/core"
)

func main() {
	p, err := core.Load(core.LoadOpts{Repo: "/repo", Tags: "dae_stub_ebpf", Variant: "stub"})
	if err != nil {
		panic(err)
	}
	f := p.Func("control", "NewControlPlane")
	g := f.Graph()
	for _, b := range g.CFG.Blocks {
		for _, n := range b.Nodes {
			if e, ok := n.(ast.Expr); ok && strings.Contains(core.ExprStr(e), "OutboundUserDefinedMax") {
				fmt.Println(b.Index, b.Kind, b.Live, len(b.Succs), len(b.Nodes), core.ExprStr(e))
				_, _, _, ok := g.Cond(b)
				fmt.Println("cond ok", ok, f.Info().Types[e].Type)
			}
		}
	}
}
