package main

import (
	"fmt"

	"daecheck/internal/core"
)

func main() {
	ov, err := core.RealBuildOverlay("/repo")
	if err != nil {
		panic(err)
	}
	p, err := core.Load(core.LoadOpts{Repo: "/repo", Variant: "real", Overlay: ov, Pattern: "./control"})
	fmt.Println(err)
	if p != nil {
		f := p.Func("control", "cidrToBpfLpmKey")
		fmt.Println(f != nil, p.NPkgs)
	}
}
