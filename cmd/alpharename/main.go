// Command alpharename writes, into a scratch copy of the repository, a variant in
// which every local variable, parameter, named result and receiver of every
// non-test function is renamed (suffix "R").  The variant is behaviourally
// identical; running the checks on it (tools_benign.sh) shows which rules depend
// on the spelling of a local name.  Nothing of dae is executed.
package main

import (
	"flag"
	"fmt"
	"go/ast"
	"go/format"
	"go/token"
	"go/types"
	"os"
	"path/filepath"
	"strings"

	"golang.org/x/tools/go/packages"
)

func main() {
	repo := flag.String("repo", "", "scratch copy of the repository (files are rewritten in place)")
	only := flag.String("only", "", "comma-separated package path suffixes to restrict to (default: all)")
	flag.Parse()
	if *repo == "" {
		fmt.Fprintln(os.Stderr, "usage: alpharename -repo <scratch copy>")
		os.Exit(2)
	}
	cfg := &packages.Config{Mode: packages.LoadSyntax, Dir: *repo, BuildFlags: []string{"-tags=dae_stub_ebpf"}, Env: append(os.Environ(), "GOFLAGS=-mod=mod", "GOPROXY=off", "GOSUMDB=off", "GOWORK=off")}
	pkgs, err := packages.Load(cfg, "./...")
	if err != nil {
		fmt.Fprintln(os.Stderr, err)
		os.Exit(2)
	}
	nfiles, nren := 0, 0
	for _, p := range pkgs {
		if len(p.Errors) > 0 {
			fmt.Fprintln(os.Stderr, "type errors in", p.PkgPath, p.Errors[0])
			os.Exit(2)
		}
		if *only != "" {
			keep := false
			for _, s := range strings.Split(*only, ",") {
				if strings.HasSuffix(p.PkgPath, s) {
					keep = true
				}
			}
			if !keep {
				continue
			}
		}
		info := p.TypesInfo
		for i, f := range p.Syntax {
			name := p.CompiledGoFiles[i]
			if strings.HasSuffix(name, "_test.go") || !strings.HasPrefix(name, *repo) {
				continue
			}
			if ast.IsGenerated(f) {
				continue
			}
			local := func(o types.Object) bool {
				v, ok := o.(*types.Var)
				if !ok || v.IsField() || v.Name() == "_" || v.Pkg() == nil {
					return false
				}
				return v.Parent() != nil && v.Parent() != v.Pkg().Scope() && v.Parent() != types.Universe
			}
			changed := 0
			// type-switch symbolic variables: the defining ident has no object
			implicitDefs := map[*ast.Ident]bool{}
			ast.Inspect(f, func(n ast.Node) bool {
				if ts, ok := n.(*ast.TypeSwitchStmt); ok {
					if as, ok := ts.Assign.(*ast.AssignStmt); ok && len(as.Lhs) == 1 {
						if id, ok := as.Lhs[0].(*ast.Ident); ok && id.Name != "_" {
							implicitDefs[id] = true
						}
					}
				}
				return true
			})
			ast.Inspect(f, func(n ast.Node) bool {
				id, ok := n.(*ast.Ident)
				if !ok {
					return true
				}
				if implicitDefs[id] {
					id.Name += "R"
					changed++
					return true
				}
				o := info.Defs[id]
				if o == nil {
					o = info.Uses[id]
				}
				if o != nil && local(o) {
					id.Name += "R"
					changed++
				}
				return true
			})
			if changed == 0 {
				continue
			}
			// struct-literal keys that are plain idents resolve to fields (not renamed); nothing else to do
			out, err := os.Create(name)
			if err != nil {
				fmt.Fprintln(os.Stderr, err)
				os.Exit(2)
			}
			if err := format.Node(out, p.Fset, f); err != nil {
				fmt.Fprintln(os.Stderr, err)
				os.Exit(2)
			}
			out.Close()
			nfiles++
			nren += changed
			_ = filepath.Base
			_ = token.NoPos
		}
	}
	fmt.Printf("alpharename: %d files rewritten, %d identifiers renamed\n", nfiles, nren)
}
