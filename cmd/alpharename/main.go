// Command alpharename writes, into a scratch copy of the repository, a variant in
// which every local variable, parameter, named result and receiver of every
// non-test function is renamed (suffix "R").  The variant is behaviourally
// identical; running the checks on it (tools_benign.sh) shows which rules depend
// on the spelling of a local name.  Nothing of dae is executed.
package main

import (
	"flag"
	"fmt"
	"go/ast"
	"go/format"
	"go/token"
	"go/types"
	"os"
	"path/filepath"
	"strings"

	"golang.org/x/tools/go/packages"
)

func main() {
	repo := flag.String("repo", "", "scratch copy of the repository (files are rewritten in place)")
	only := flag.String("only", "", "comma-separated package path suffixes to restrict to (default: all)")
	mode := flag.String("mode", "rename", "rename: rename every local; noop: insert a call of an empty function at the head of every block; flip: swap the operands of comparisons between two call-free non-constant operands")
	flag.Parse()
	if *repo == "" {
		fmt.Fprintln(os.Stderr, "usage: alpharename -repo <scratch copy>")
		os.Exit(2)
	}
	cfg := &packages.Config{Mode: packages.LoadSyntax, Dir: *repo, BuildFlags: []string{"-tags=dae_stub_ebpf"}, Env: append(os.Environ(), "GOFLAGS=-mod=mod", "GOPROXY=off", "GOSUMDB=off", "GOWORK=off")}
	pkgs, err := packages.Load(cfg, "./...")
	if err != nil {
		fmt.Fprintln(os.Stderr, err)
		os.Exit(2)
	}
	nfiles, nren := 0, 0
	noopPkgs := map[string]string{}
	defer func() {
		if *mode == "noop" {
			for dir, pkg := range noopPkgs {
				os.WriteFile(filepath.Join(dir, "zz_verifnoop.go"), []byte("package "+pkg+"\n\nfunc verifNoop() {}\n"), 0o644)
			}
		}
	}()
	for _, p := range pkgs {
		if len(p.Errors) > 0 {
			fmt.Fprintln(os.Stderr, "type errors in", p.PkgPath, p.Errors[0])
			os.Exit(2)
		}
		if *only != "" {
			keep := false
			for _, s := range strings.Split(*only, ",") {
				if strings.HasSuffix(p.PkgPath, s) {
					keep = true
				}
			}
			if !keep {
				continue
			}
		}
		info := p.TypesInfo
		for i, f := range p.Syntax {
			name := p.CompiledGoFiles[i]
			if strings.HasSuffix(name, "_test.go") || !strings.HasPrefix(name, *repo) {
				continue
			}
			if ast.IsGenerated(f) {
				continue
			}
			local := func(o types.Object) bool {
				v, ok := o.(*types.Var)
				if !ok || v.IsField() || v.Name() == "_" || v.Pkg() == nil {
					return false
				}
				return v.Parent() != nil && v.Parent() != v.Pkg().Scope() && v.Parent() != types.Universe
			}
			changed := 0
			if *mode != "rename" {
				changed = transform(*mode, info, f)
				if changed > 0 {
					out, err := os.Create(name)
					if err != nil {
						fmt.Fprintln(os.Stderr, err)
						os.Exit(2)
					}
					if err := format.Node(out, p.Fset, f); err != nil {
						fmt.Fprintln(os.Stderr, err)
						os.Exit(2)
					}
					out.Close()
					nfiles++
					nren += changed
					noopPkgs[filepath.Dir(name)] = p.Name
				}
				continue
			}
			// type-switch symbolic variables: the defining ident has no object
			implicitDefs := map[*ast.Ident]bool{}
			ast.Inspect(f, func(n ast.Node) bool {
				if ts, ok := n.(*ast.TypeSwitchStmt); ok {
					if as, ok := ts.Assign.(*ast.AssignStmt); ok && len(as.Lhs) == 1 {
						if id, ok := as.Lhs[0].(*ast.Ident); ok && id.Name != "_" {
							implicitDefs[id] = true
						}
					}
				}
				return true
			})
			ast.Inspect(f, func(n ast.Node) bool {
				id, ok := n.(*ast.Ident)
				if !ok {
					return true
				}
				if implicitDefs[id] {
					id.Name += "R"
					changed++
					return true
				}
				o := info.Defs[id]
				if o == nil {
					o = info.Uses[id]
				}
				if o != nil && local(o) {
					id.Name += "R"
					changed++
				}
				return true
			})
			if changed == 0 {
				continue
			}
			// struct-literal keys that are plain idents resolve to fields (not renamed); nothing else to do
			out, err := os.Create(name)
			if err != nil {
				fmt.Fprintln(os.Stderr, err)
				os.Exit(2)
			}
			if err := format.Node(out, p.Fset, f); err != nil {
				fmt.Fprintln(os.Stderr, err)
				os.Exit(2)
			}
			out.Close()
			nfiles++
			nren += changed
			_ = filepath.Base
			_ = token.NoPos
		}
	}
	fmt.Printf("alpharename: %d files rewritten, %d identifiers renamed\n", nfiles, nren)
}

func callFree(e ast.Expr) bool {
	ok := true
	ast.Inspect(e, func(n ast.Node) bool {
		switch n.(type) {
		case *ast.CallExpr, *ast.FuncLit, *ast.UnaryExpr:
			ok = false
		}
		return ok
	})
	return ok
}

// negate returns the logical negation of a condition, the way a person would write it.
func negate(info *types.Info, c ast.Expr) ast.Expr {
	switch x := c.(type) {
	case *ast.ParenExpr:
		return negate(info, x.X)
	case *ast.UnaryExpr:
		if x.Op == token.NOT {
			if p, ok := x.X.(*ast.ParenExpr); ok {
				return p.X
			}
			return x.X
		}
	case *ast.BinaryExpr:
		isFloat := func(e ast.Expr) bool {
			if t := info.TypeOf(e); t != nil {
				if b, ok := t.Underlying().(*types.Basic); ok && b.Info()&types.IsFloat != 0 {
					return true
				}
			}
			return false
		}
		var op token.Token
		switch x.Op {
		case token.EQL:
			op = token.NEQ
		case token.NEQ:
			op = token.EQL
		case token.LSS:
			op = token.GEQ
		case token.GEQ:
			op = token.LSS
		case token.GTR:
			op = token.LEQ
		case token.LEQ:
			op = token.GTR
		case token.LAND:
			return &ast.BinaryExpr{X: paren(negate(info, x.X)), Op: token.LOR, Y: paren(negate(info, x.Y))}
		case token.LOR:
			return &ast.BinaryExpr{X: paren(negate(info, x.X)), Op: token.LAND, Y: paren(negate(info, x.Y))}
		}
		if op != token.ILLEGAL && !isFloat(x.X) {
			return &ast.BinaryExpr{X: x.X, Op: op, Y: x.Y}
		}
	}
	return &ast.UnaryExpr{Op: token.NOT, X: &ast.ParenExpr{X: c}}
}

func paren(e ast.Expr) ast.Expr {
	if b, ok := e.(*ast.BinaryExpr); ok && (b.Op == token.LAND || b.Op == token.LOR) {
		return &ast.ParenExpr{X: e}
	}
	return e
}

func transform(mode string, info *types.Info, f *ast.File) int {
	n := 0
	noop := func() ast.Stmt {
		return &ast.ExprStmt{X: &ast.CallExpr{Fun: ast.NewIdent("verifNoop")}}
	}
	skip := map[*ast.BlockStmt]bool{}
	ast.Inspect(f, func(m ast.Node) bool {
		switch x := m.(type) {
		case *ast.SwitchStmt:
			skip[x.Body] = true
		case *ast.TypeSwitchStmt:
			skip[x.Body] = true
		case *ast.SelectStmt:
			skip[x.Body] = true
		}
		return true
	})
	ast.Inspect(f, func(m ast.Node) bool {
		switch x := m.(type) {
		case *ast.CommClause:
			if mode == "noop" {
				x.Body = append([]ast.Stmt{noop()}, x.Body...)
				n++
			}
		case *ast.BlockStmt:
			if mode == "noop" && !skip[x] {
				x.List = append([]ast.Stmt{noop()}, x.List...)
				n++
			}
		case *ast.CaseClause:
			if mode == "noop" {
				x.Body = append([]ast.Stmt{noop()}, x.Body...)
				n++
			}
		case *ast.IfStmt:
			// invert: if c {A} else {B}  =>  if !c {B} else {A}   (plain else blocks only)
			if mode == "invert" {
				if eb, ok := x.Else.(*ast.BlockStmt); ok {
					x.Cond = negate(info, x.Cond)
					x.Body, x.Else = eb, x.Body
					n++
				}
			}
		case *ast.BinaryExpr:
			if mode != "flip" {
				return true
			}
			var rev token.Token
			switch x.Op {
			case token.EQL, token.NEQ:
				rev = x.Op
			case token.LSS:
				rev = token.GTR
			case token.GTR:
				rev = token.LSS
			case token.LEQ:
				rev = token.GEQ
			case token.GEQ:
				rev = token.LEQ
			default:
				return true
			}
			tx, ty := info.Types[x.X], info.Types[x.Y]
			if tx.Value != nil || ty.Value != nil || tx.IsNil() || ty.IsNil() || !callFree(x.X) || !callFree(x.Y) {
				return true
			}
			x.X, x.Y, x.Op = x.Y, x.X, rev
			n++
		}
		return true
	})
	return n
}
