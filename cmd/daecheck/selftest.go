package main

import (
	"encoding/json"
	"fmt"
	"io"
	"io/fs"
	"os"
	"os/exec"
	"path/filepath"
	"regexp"
	"sort"
	"strings"
	"sync"
)

// The thorough tier re-validates the checker itself: every reference defect
// kept under /verif (reverts of the repaired findings in mutants/, and the
// independently seeded changes in seeded/) is applied to a scratch copy of
// /repo's *current working tree*, the quick rules are run on that copy, and
// the outcome is compared with selftest.json. Nothing of dae is built or run;
// the scratch copy only feeds the static analysis and is removed afterwards.

type selfCase struct {
	ID     string   `json:"id"`
	Patch  string   `json:"patch"`  // relative to the verif dir
	Checks []string `json:"checks"` // properties whose check must report it
	Missed []string `json:"missed"` // properties whose check is known not to see it (reason in DESIGN.md)
	Rule   string   `json:"rule"`   // expected rule family of the report (informative)
	What   string   `json:"what"`
}

type selfResult struct {
	ID      string `json:"id"`
	Patch   string `json:"patch"`
	Expect  string `json:"expect"`
	Outcome string `json:"outcome"` // caught | missed | patch-does-not-apply
	Report  string `json:"report,omitempty"`
}

func copyTree(src, dst string) error {
	return filepath.WalkDir(src, func(p string, d fs.DirEntry, err error) error {
		if err != nil {
			return err
		}
		rel, _ := filepath.Rel(src, p)
		if d.IsDir() {
			if d.Name() == ".git" {
				return filepath.SkipDir
			}
			return os.MkdirAll(filepath.Join(dst, rel), 0o755)
		}
		if !d.Type().IsRegular() {
			return nil
		}
		if rel == ".git" { // worktree pointer file
			return nil
		}
		in, err := os.Open(p)
		if err != nil {
			return err
		}
		defer in.Close()
		out, err := os.Create(filepath.Join(dst, rel))
		if err != nil {
			return err
		}
		if _, err := io.Copy(out, in); err != nil {
			out.Close()
			return err
		}
		return out.Close()
	})
}

var reportLine = regexp.MustCompile(`^\S+: \[(C\d\d)/([^\]]+)\] (.*)$`)

func runSelfTest(prop, repo, verifDir string) (results []selfResult, failures []string) {
	b, err := os.ReadFile(filepath.Join(verifDir, "selftest.json"))
	if err != nil {
		return nil, []string{"selftest.json unreadable: " + err.Error()}
	}
	var all []selfCase
	if err := json.Unmarshal(b, &all); err != nil {
		return nil, []string{"selftest.json: " + err.Error()}
	}
	type job struct {
		c      selfCase
		expect string
	}
	var jobs []job
	for _, c := range all {
		for _, p := range c.Checks {
			if p == prop {
				jobs = append(jobs, job{c, "caught"})
			}
		}
		for _, p := range c.Missed {
			if p == prop {
				jobs = append(jobs, job{c, "missed"})
			}
		}
	}
	exe, _ := os.Executable()
	res := make([]selfResult, len(jobs))
	var wg sync.WaitGroup
	sem := make(chan struct{}, 4)
	for i, j := range jobs {
		wg.Add(1)
		go func(i int, j job) {
			defer wg.Done()
			sem <- struct{}{}
			defer func() { <-sem }()
			r := selfResult{ID: j.c.ID, Patch: j.c.Patch, Expect: j.expect}
			defer func() { res[i] = r }()
			scratch, err := os.MkdirTemp("", "daecheck-selftest-")
			if err != nil {
				r.Outcome = "error: " + err.Error()
				return
			}
			defer os.RemoveAll(scratch)
			tree := filepath.Join(scratch, "repo")
			if err := copyTree(repo, tree); err != nil {
				r.Outcome = "error: " + err.Error()
				return
			}
			ap := exec.Command("git", "apply", "--whitespace=nowarn", filepath.Join(verifDir, j.c.Patch))
			ap.Dir = tree
			ap.Env = append(os.Environ(), "GIT_CEILING_DIRECTORIES="+scratch, "GIT_DIR=/nonexistent")
			if out, err := ap.CombinedOutput(); err != nil {
				r.Outcome = "patch-does-not-apply"
				r.Report = strings.TrimSpace(string(out))
				return
			}
			cmd := exec.Command(exe, "-p", prop, "-tier", "quick", "-repo", tree, "-dir", verifDir, "-out", filepath.Join(scratch, "out"))
			out, _ := cmd.CombinedOutput()
			r.Outcome = "missed"
			for _, ln := range strings.Split(string(out), "\n") {
				if m := reportLine.FindStringSubmatch(ln); m != nil && m[1] == prop {
					if r.Report == "" {
						d := m[3]
						if r := []rune(d); len(r) > 220 {
							d = string(r[:220]) + "…"
						}
						r.Report = m[2] + " " + d
					}
				}
				if strings.HasPrefix(ln, "VIOLATION property="+prop) {
					r.Outcome = "caught"
				}
			}
			if cmd.ProcessState != nil && cmd.ProcessState.ExitCode() > 1 {
				r.Outcome = fmt.Sprintf("error: checker exit %d", cmd.ProcessState.ExitCode())
			}
		}(i, j)
	}
	wg.Wait()
	sort.Slice(res, func(a, b int) bool { return res[a].ID < res[b].ID })
	for _, r := range res {
		switch {
		case r.Outcome == "patch-does-not-apply":
			// the working tree differs from the tree the reference defect was written for: not a verdict
		case r.Expect == "caught" && r.Outcome != "caught":
			failures = append(failures, fmt.Sprintf("%s (%s): reference defect applied to a scratch copy of the working tree is no longer reported (%s)", r.ID, r.Patch, r.Outcome))
		case strings.HasPrefix(r.Outcome, "error"):
			failures = append(failures, fmt.Sprintf("%s: %s", r.ID, r.Outcome))
		}
	}
	return res, failures
}
