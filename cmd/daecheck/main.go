// daecheck decides the structural clauses of properties C01–C20 from /repo's
// current source (static analysis only; nothing of dae is executed).
package main

import (
	"encoding/json"
	"flag"
	"fmt"
	"os"
	"path/filepath"
	"strings"

	"daecheck/internal/core"
	"daecheck/internal/props"
)

func main() {
	prop := flag.String("p", "", "property id (C01..C20)")
	tier := flag.String("tier", "quick", "quick|thorough")
	repo := flag.String("repo", "/repo", "repository root")
	dir := flag.String("dir", "", "verif dir (default: parent of the binary's dir)")
	out := flag.String("out", "", "evidence output dir (default: <verif dir>/evidence)")
	noSelf := flag.Bool("noselftest", false, "thorough tier without the reference-defect self-test")
	dumpNames := flag.Bool("dumpnames", false, "write canon_names.json (ordered local names of every function of the reference tree) and exit")
	flag.Parse()
	if t := os.Getenv("VERIF_TIER"); t != "" && *tier == "" {
		*tier = t
	}
	if *dir == "" {
		exe, _ := os.Executable()
		*dir = filepath.Dir(filepath.Dir(exe))
		if _, err := os.Stat(filepath.Join(*dir, "MANIFEST.json")); err != nil {
			*dir = "/verif"
		}
	}
	if *dumpNames {
		os.Exit(dumpCanonNames(*repo, *dir))
	}
	core.CanonFile = filepath.Join(*dir, "canon_names.json")
	ck := props.Registry[*prop]
	if ck == nil {
		fmt.Fprintf(os.Stderr, "unknown property %q; have %s\n", *prop, strings.Join(props.IDs(), " "))
		os.Exit(2)
	}
	rep := core.NewReport(ck.ID, *tier)
	rep.OutDir = *out
	p, err := core.Load(core.LoadOpts{Repo: *repo, Tags: "dae_stub_ebpf", Variant: "stub"})
	if err != nil {
		rep.Check("load", "packages", "-", false, err.Error())
		os.Exit(rep.Finish(*dir, ck.Explain))
	}
	rep.Extra["packages_loaded"] = p.NPkgs
	rep.Extra["repo_packages"] = len(p.RepoPkgs())
	rep.Extra["variants"] = []string{"stub linux/amd64 -tags dae_stub_ebpf"}
	ctx := &props.Ctx{P: p, R: rep, Tier: *tier, Repo: *repo, Dir: *dir}
	func() {
		defer func() {
			if r := recover(); r != nil {
				rep.Check("internal", "checker", "-", false, fmt.Sprintf("checker panicked: %v (a panic is a failure, never a pass)", r))
			}
		}()
		ck.Run(ctx)
	}()
	if *tier == "thorough" && !*noSelf {
		res, fails := runSelfTest(ck.ID, *repo, *dir)
		rep.Extra["selftest"] = res
		caught, applied := 0, 0
		for _, r := range res {
			if r.Outcome != "patch-does-not-apply" {
				applied++
			}
			if r.Outcome == "caught" {
				caught++
			}
			fmt.Printf("  selftest %-14s expect=%-6s outcome=%-8s %s\n", r.ID, r.Expect, r.Outcome, r.Report)
		}
		rep.Extra["selftest_summary"] = fmt.Sprintf("%d reference defects for this property, %d applied to a scratch copy of the working tree, %d reported", len(res), applied, caught)
		for _, f := range fails {
			rep.Check("SELFTEST", f[:strings.Index(f, " ")], "-", false, f+" — the checker has lost the ability to see a defect it is recorded to see; its pass verdict is not to be trusted")
		}
		if len(fails) == 0 {
			rep.Check("SELFTEST", "reference-defects", "-", true, fmt.Sprint(rep.Extra["selftest_summary"]))
		}
	}
	os.Exit(rep.Finish(*dir, ck.Explain))
}

func dumpCanonNames(repo, dir string) int {
	p, err := core.Load(core.LoadOpts{Repo: repo, Tags: "dae_stub_ebpf", Variant: "stub"})
	if err != nil {
		fmt.Fprintln(os.Stderr, err)
		return 2
	}
	table := p.DumpNames()
	if ov, err := core.RealBuildOverlay(repo); err == nil {
		if pr, err := core.Load(core.LoadOpts{Repo: repo, Tags: "", Variant: "real", Overlay: ov, Pattern: "./control"}); err == nil {
			for k, v := range pr.DumpNames() {
				if _, ok := table[k]; !ok {
					table[k] = v
				}
			}
		} else {
			fmt.Fprintln(os.Stderr, err)
			return 2
		}
	}
	raw, _ := json.MarshalIndent(table, "", " ")
	if err := os.WriteFile(filepath.Join(dir, "canon_names.json"), raw, 0o644); err != nil {
		fmt.Fprintln(os.Stderr, err)
		return 2
	}
	fmt.Printf("canon_names.json: %d functions\n", len(table))
	return 0
}
