// daecheck decides the structural clauses of properties C01–C20 from /repo's
// current source (static analysis only; nothing of dae is executed).
package main

import (
	"flag"
	"fmt"
	"os"
	"path/filepath"
	"strings"

	"daecheck/internal/core"
	"daecheck/internal/props"
)

func main() {
	prop := flag.String("p", "", "property id (C01..C20)")
	tier := flag.String("tier", "quick", "quick|thorough")
	repo := flag.String("repo", "/repo", "repository root")
	dir := flag.String("dir", "", "verif dir (default: parent of the binary's dir)")
	flag.Parse()
	if t := os.Getenv("VERIF_TIER"); t != "" && *tier == "" {
		*tier = t
	}
	if *dir == "" {
		exe, _ := os.Executable()
		*dir = filepath.Dir(filepath.Dir(exe))
		if _, err := os.Stat(filepath.Join(*dir, "MANIFEST.json")); err != nil {
			*dir = "/verif"
		}
	}
	ck := props.Registry[*prop]
	if ck == nil {
		fmt.Fprintf(os.Stderr, "unknown property %q; have %s\n", *prop, strings.Join(props.IDs(), " "))
		os.Exit(2)
	}
	rep := core.NewReport(ck.ID, *tier)
	p, err := core.Load(core.LoadOpts{Repo: *repo, Tags: "dae_stub_ebpf", Variant: "stub"})
	if err != nil {
		rep.Check("load", "packages", "-", false, err.Error())
		os.Exit(rep.Finish(*dir, ck.Explain))
	}
	rep.Extra["packages_loaded"] = p.NPkgs
	rep.Extra["repo_packages"] = len(p.RepoPkgs())
	rep.Extra["variants"] = []string{"stub linux/amd64 -tags dae_stub_ebpf"}
	ctx := &props.Ctx{P: p, R: rep, Tier: *tier, Repo: *repo, Dir: *dir}
	func() {
		defer func() {
			if r := recover(); r != nil {
				rep.Check("internal", "checker", "-", false, fmt.Sprintf("checker panicked: %v (a panic is a failure, never a pass)", r))
			}
		}()
		ck.Run(ctx)
	}()
	os.Exit(rep.Finish(*dir, ck.Explain))
}
